(* Props/C14.v — pinned statements for property C14 (framed blocking I/O: minicbor-io Reader / Writer).
   Nothing but statements closed by `exact`; proofs live in Proofs/FrameIoFacts.v.
   Vocabulary (Model/FrameIo.v): frame_of p = be32 |p| ++ p; stream_of ps = the frames of ps concatenated;
   a source is the bytes it holds plus a script with one outcome per io::Read::read call (RData k: deliver up
   to k bytes, RIntr: ErrorKind::Interrupted, RErr: any other error; after the script: deliver all that is
   asked for); tok_ok t excludes RErr and RData 0; read_stream calls Reader::read_with until Ok(None) or an
   error other than Error::Decode; decode_outcome p = Ok(Some v) if dec p = Some v, Err(Decode) otherwise;
   fits max p = |p| <= max /\ |p| < 2^32. *)
From MC Require Import Bytes Monad Decoder Types TypesEnc TypesFacts FrameIo FrameIoFacts FrameIoTypes.
Local Open Scope N_scope.

(* Every list of payloads, every fair fragmentation with Interrupted errors interleaved: the reader returns
   exactly the payloads in order (an undecodable payload as Error::Decode at its place, without disturbing
   the frames after it), then a clean end; the source is drained. *)
Theorem C14_roundtrip : forall (V : Type) (dec : bytes -> option V) max ps sched buf0 peak calls,
  Forall (fits max) ps -> Forall tok_ok sched ->
  exists r' s',
    read_stream V dec (mkreader buf0 max peak) (mksrc (stream_of ps) sched calls)
      = (map (decode_outcome V dec) ps ++ [OEnd], r', s')
    /\ s_data s' = [].
Proof. exact fio_roundtrip. Qed.

(* The general form behind it: on every byte stream, well-formed or not, and every such schedule the
   results are those the wire-format specification (spec_stream) assigns to the bytes. *)
Theorem C14_spec : forall (V : Type) (dec : bytes -> option V) r s, benign s ->
  exists r' s',
    read_stream V dec r s = (map (outcome_of_sitem V dec) (spec_stream (r_max r) (s_data s)), r', s')
    /\ r_max r' = r_max r /\ s_data s' = spec_rest (S (length (s_data s))) (r_max r) (s_data s).
Proof. exact read_stream_spec. Qed.

(* The writer hands be32 |p| ++ p to the inner writer in a single write_all and returns |p|.  |p| < 2^32 is
   implied by |p| <= max_len, max_len being set from a u32 (C14_frame_u32). *)
Theorem C14_frame : forall w p,
  len p <= w_max w -> len p < 4294967296 ->
  write_with w (EncOk p) true = (WOk (len p), mkwriter (frame_of p) (w_max w), [be 4 (len p) ++ p]).
Proof. exact write_with_frame. Qed.
Theorem C14_frame_u32 : forall w p,
  len p <= w_max w -> w_max w < 4294967296 ->
  write_with w (EncOk p) true = (WOk (len p), mkwriter (frame_of p) (w_max w), [be 4 (len p) ++ p]).
Proof. exact write_with_frame_u32. Qed.
(* The writer never panics (the usize `len - 4` cannot underflow; writer.rs:58-61). *)
Theorem C14_writer_no_panic : forall w e ok, fst (fst (write_with w e ok)) <> WPanic.
Proof. exact write_with_no_panic. Qed.

(* An over-long value is refused with InvalidLen and an encoding failure with Error::Encode; nothing reaches the sink. *)
Theorem C14_reject_len : forall w p ok,
  w_max w < len p -> exists b, write_with w (EncOk p) ok = (WErr IoInvalidLen, mkwriter b (w_max w), []).
Proof. exact write_with_too_long. Qed.
Theorem C14_reject_enc : forall w part ok,
  exists b, write_with w (EncFail part) ok = (WErr IoEncode, mkwriter b (w_max w), []).
Proof. exact write_with_enc_fail. Qed.

(* Whatever the value: at most one chunk reaches the sink per call, it is at most max_len + 4 bytes long, and
   the call returns its payload length. *)
Theorem C14_writer_bound : forall w e ok r w' cs,
  write_with w e ok = (r, w', cs) ->
  w_max w' = w_max w /\ (cs = [] \/ exists b, cs = [b] /\ len b <= w_max w + 4 /\ r = WOk (len b - 4)).
Proof. exact write_with_bounded. Qed.

(* A stream cut anywhere strictly inside a frame (prefix or payload): UnexpectedEof after the complete frames, never a value. *)
Theorem C14_truncated : forall (V : Type) (dec : bytes -> option V) max ps p k sched buf0 peak calls,
  Forall (fits max) ps -> fits max p -> (0 < k < length (frame_of p))%nat -> Forall tok_ok sched ->
  exists r' s',
    read_stream V dec (mkreader buf0 max peak) (mksrc (stream_of ps ++ firstn k (frame_of p)) sched calls)
      = (map (decode_outcome V dec) ps ++ [OErr IoUnexpectedEof], r', s').
Proof. exact fio_truncated. Qed.

(* A payload that fails to decode consumes exactly its frame; later frames are unaffected. *)
Theorem C14_resync : forall (V : Type) (dec : bytes -> option V) max ps1 p ps2 sched buf0 peak calls,
  Forall (fits max) (ps1 ++ p :: ps2) -> dec p = None -> Forall tok_ok sched ->
  exists r' s',
    read_stream V dec (mkreader buf0 max peak) (mksrc (stream_of (ps1 ++ p :: ps2)) sched calls)
      = (map (decode_outcome V dec) ps1 ++ OErr IoDecode :: map (decode_outcome V dec) ps2 ++ [OEnd], r', s')
    /\ s_data s' = [].
Proof. exact fio_resync. Qed.

(* A declared length above max_len is refused with InvalidLen ... *)
Theorem C14_invalid_len : forall (V : Type) (dec : bytes -> option V) max ps p rest sched buf0 peak calls,
  Forall (fits max) ps -> max < len p -> len p < 4294967296 -> Forall tok_ok sched ->
  exists r' s',
    read_stream V dec (mkreader buf0 max peak) (mksrc (stream_of ps ++ frame_of p ++ rest) sched calls)
      = (map (decode_outcome V dec) ps ++ [OErr IoInvalidLen], r', s').
Proof. exact fio_too_long. Qed.

(* ... and, for every script (hard errors and zero-length reads included) and every byte stream: the model never
   panics nor runs out of fuel, Vec::resize is only ever reached with an argument <= max_len (r_peak), and the
   reader's buffer never grows beyond max_len. *)
Theorem C14_alloc : forall (V : Type) (dec : bytes -> option V) r s os r' s',
  read_stream V dec r s = (os, r', s') ->
  Forall (fun o => o <> OPanic /\ o <> OFuel) os /\
  r_peak r' <= N.max (r_peak r) (r_max r) /\
  len (r_buf r') <= N.max (len (r_buf r)) (r_max r).
Proof. exact fio_alloc. Qed.

(* Writer and reader together, for any codec whose decoder inverts its encoder. *)
Theorem C14_end_to_end : forall (V : Type) (enc : V -> enc_res) (dec : bytes -> option V),
  (forall v p, enc v = EncOk p -> dec p = Some v) ->
  forall max vs ps sched wb rb pk c,
  Forall2 (fun v p => enc v = EncOk p) vs ps ->
  Forall (fits max) ps ->
  Forall tok_ok sched ->
  exists w' r' s',
    write_seq (mkwriter wb max) (map (fun v => (enc v, true)) vs)
      = (map (fun p => WOk (len p)) ps, w', map frame_of ps)
    /\ read_stream V dec (mkreader rb max pk) (mksrc (concat (map frame_of ps)) sched c)
      = (map OVal vs ++ [OEnd], r', s')
    /\ s_data s' = [].
Proof. exact fio_e2e. Qed.

Print Assumptions C14_roundtrip.
Print Assumptions C14_spec.
Print Assumptions C14_frame.
Print Assumptions C14_reject_len.
Print Assumptions C14_reject_enc.
Print Assumptions C14_writer_bound.
Print Assumptions C14_truncated.
Print Assumptions C14_resync.
Print Assumptions C14_invalid_len.
Print Assumptions C14_alloc.
Print Assumptions C14_end_to_end.
Print Assumptions C14_frame_u32.
Print Assumptions C14_writer_no_panic.

(* End to end with the real value codec (Proofs/FrameIoTypes.v): `dec` instantiated with the built-in Decode impls as
   minicbor::decode runs them on a payload (dec_of c t), the payloads being what the built-in Encode impls write for a list of
   values of type t (payloads_of; C01's hypotheses ty_ok / rt_ok): the reader yields exactly the written values, in order,
   then a clean end — in every feature configuration c, under every fair fragmentation with Interrupted errors interleaved. *)
Theorem C14_values_roundtrip : forall c t vs ps max sched buf0 peak calls,
  ty_ok t = true -> rt_ok t = true -> payloads_of t vs ps -> Forall (fits max) ps -> Forall tok_ok sched ->
  exists r' s',
    read_stream value (dec_of c t) (mkreader buf0 max peak) (mksrc (stream_of ps) sched calls) = (map OVal vs ++ [OEnd], r', s')
    /\ s_data s' = [].
Proof. exact fio_values_roundtrip. Qed.
Print Assumptions C14_values_roundtrip.
