(* Props/C08.v — pinned statements for property C08 (derived Encode emits exactly the documented wire format). *)
From MC Require Import Bytes Cbor Encoder Types DeriveSchema DeriveEnc DeriveDoc DeriveKnown DeriveCompat DeriveFacts DeriveDocFacts DeriveInvFacts DeriveInvSchema DeriveClosed.
Local Open Scope N_scope.

(* For every schema the macros accept, every definition d and every value v the derived encoder accepts:
   outside class F14 (an Option hidden behind a type alias under a codec) the bytes written are exactly
   ser (prefer (doc_tree …)), the documented format of Spec/DeriveDoc.v, and that tree is well-formed CBOR.
   Hypotheses: (1) every built-in leaf type of the schema (predicate okty) encodes as its documented tree
   ty_tree, which is well-formed — the format part of C03_types, to be discharged at merge time; (2) the encoding is shorter than
   2^64 bytes (true of every Rust slice; the model's lists are unbounded). *)
Theorem C08_format_gen : forall (okty : ty -> Prop),
  (forall t, okty t -> forall v cs, encode_ty t v = Some cs -> len (flat cs) < two64 ->
     exists e, ty_tree t v = Some e /\ flat cs = ser (prefer e) /\ wf (prefer e) = true) ->
  forall Sc d v cs, schema_ok Sc = true -> schema_all okty Sc ->
  gen_encode Sc d v = Some cs -> known_alias_nil Sc d v = false -> len (flat cs) < two64 ->
  exists e, doc_tree Sc d v = Some e /\ flat cs = ser (prefer e) /\ wf (prefer e) = true.
Proof. exact gen_encode_doc. Qed.

(* The same with hypothesis (1) discharged by C03_types (ty_tree is the preferred tree of Spec/Denote.v's item). *)
Theorem C08_format : forall Sc, schema_ok Sc = true -> schema_all leaf_ok Sc ->
  forall d v cs, gen_encode Sc d v = Some cs -> known_alias_nil Sc d v = false -> len (flat cs) < two64 ->
  exists e, doc_tree Sc d v = Some e /\ flat cs = ser (prefer e) /\ wf (prefer e) = true.
Proof. exact gen_encode_doc_closed. Qed.

(* Declaration order of fields and of variants, the n/b choice and the named/tuple shape never influence the
   bytes, in any number of definitions of a schema at once: if Sc' is a reordering of Sc and v' is v reordered
   accordingly (Model/DeriveCompat.v `reordered`: in every struct / variant body the non-skipped (field, value)
   pairs are a permutation of each other, borrow flags erased, nested values related recursively; variants are
   matched by index), the derived encoders of the two schemas write the same bytes.  Field and type names do not
   exist in the model; the harness checks renaming metamorphically (DMETA). *)
Theorem C08_invariance : forall Sc Sc' d v v', schema_ok Sc = true -> schema_ok Sc' = true ->
  reordered Sc Sc' d v v' -> gen_encode Sc d v = gen_encode Sc' d v'.
Proof. intros Sc Sc' d v v' H H'. exact (gen_encode_reordered Sc Sc' H H' (S d) d v v'). Qed.

(* the definition-level core: one definition reordered, the definitions it refers to shared *)
Theorem C08_invariance_def : forall rec d d' df df' v v',
  def_ok d df = true -> def_ok d' df' = true -> same_def df df' v v' ->
  enc_def rec df v = enc_def rec df' v'.
Proof. exact enc_def_perm. Qed.

(* F14: { #[cbor(n(0), with = "minicbor::bytes")] a: Alias = None, #[n(1)] b: u8 = 0 } under map encoding:
   a2 00 f6 01 00 is written, the documented format is a1 01 00. *)
Theorem C08_alias_nil_refuted :
  schema_ok f13_schema = true /\ known_alias_nil f13_schema 0 f13_value = true /\
  exists cs, gen_encode f13_schema 0 f13_value = Some cs /\ flat cs = [162; 0; 246; 1; 0] /\
             doc_bytes f13_schema 0 f13_value = Some [161; 1; 0].
Proof. exact f13_refuted. Qed.

(* F8 (None inside an enum variant written as explicit null) is repaired: the variant body omits the field *)
Example C08_variant_nil_example :
  let Sc := [DEnum None None false
               [mkvariant 0 (Some AsMap) None DsNamed
                  [mkfield 0 false None CoDefault true false (FTy (TyOpt (TyU B8))); mkfield 1 false None CoDefault false false (FTy (TyU B8))]]] in
  schema_ok Sc = true /\ known_alias_nil Sc 0 (VVar 0 (VList [VNone; VNat 1])) = false /\
  exists cs, gen_encode Sc 0 (VVar 0 (VList [VNone; VNat 1])) = Some cs /\ flat cs = [130; 0; 161; 1; 1]
             /\ doc_bytes Sc 0 (VVar 0 (VList [VNone; VNat 1])) = Some [130; 0; 161; 1; 1].
Proof. vm_compute. repeat split. eexists. repeat split. Qed.

(* the relation of C08_invariance_def is inhabited by a non-trivial instance *)
Example C08_invariance_example :
  let f0 := mkfield 0 false None CoDefault false false (FTy (TyU B8)) in
  let f1 := mkfield 1 true (Some 7) CoDefault true false (FTy (TyOpt TyStr)) in
  same_def (DStruct None None false DsNamed [f0; f1]) (DStruct None None false DsTuple [eraseb f1; f0])
           (VList [VNat 3; VNone]) (VList [VNone; VNat 3]).
Proof.
  cbv zeta. constructor; [reflexivity|]. split; [reflexivity|]. split; [reflexivity|].
  cbn. apply Permutation.perm_swap.
Qed.

(* `reordered` is inhabited by a non-trivial instance: a struct holding an Option of another struct, both reordered *)
Example C08_invariance_schema_example :
  let a := mkfield 0 false None CoDefault false false (FTy (TyU B8)) in
  let b := mkfield 1 true (Some 7) CoDefault true false (FTy (TyOpt TyStr)) in
  let o := mkfield 0 false None CoDefault true false (FOpt (FRef 0)) in
  let k := mkfield 3 false None CoDefault false false (FTy TyBool) in
  let Sc  := [DStruct None None false DsNamed [a; b]; DStruct (Some AsMap) None false DsNamed [o; k]] in
  let Sc' := [DStruct None None false DsTuple [eraseb b; a]; DStruct (Some AsMap) None false DsNamed [k; o]] in
  reordered Sc Sc' 1 (VList [VSome (VList [VNat 3; VNone]); VBool true]) (VList [VBool true; VSome (VList [VNone; VNat 3])]).
Proof.
  cbv zeta. unfold reordered. cbn [reordered_f nth_error]. constructor; [reflexivity|].
  split; [reflexivity|]. split; [reflexivity|]. cbn [decl f_skip].
  eexists. split; [apply Permutation.perm_swap|]. constructor.
  - split; [reflexivity|]. cbn. reflexivity.
  - constructor; [|constructor]. split; [reflexivity|]. cbn [f_codec fst snd f_ty fty_rel]. split; [reflexivity|].
    cbn [reordered_f nth_error]. constructor; [reflexivity|]. split; [reflexivity|]. split; [reflexivity|]. cbn [decl f_skip eraseb].
    eexists. split; [apply Permutation.perm_swap|]. constructor; [split; [reflexivity|]; cbn; reflexivity|].
    constructor; [|constructor]. split; [reflexivity|]. cbn. reflexivity.
Qed.

Print Assumptions C08_format_gen.
Print Assumptions C08_format.
Print Assumptions C08_invariance.
Print Assumptions C08_invariance_def.
Print Assumptions C08_alias_nil_refuted.
