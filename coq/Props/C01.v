(* Props/C01.v — pinned statements for property C01 (value round-trip for every built-in codec type).
   Universe: Model/Types.v (ty, value, encode_ty, decode_ty).  Predicates: ty_ok (TypesEnc.v),
   nullable (TypesDec.v), rt_ok (TypesFacts.v), has_ty / refused (TypesTyping.v). *)
From MC Require Import Bytes Monad Cbor Decoder Encoder Types TypesEnc TypesDec TypesFacts TypesTyping TypesPrefix.
Local Open Scope N_scope.

(* For every well-formed descriptor t that contains no Option directly around an Option, every value v
   the encoder accepts (the encoding having a usize length), written anywhere (position p) in a buffer
   of length L and followed by any bytes, decoding as t returns exactly v and stops exactly after the
   bytes the encoder produced — in every feature configuration c, for every fuel exceeding the number
   of remaining bytes. *)
Theorem C01_roundtrip : forall c t v cs rest p L fuel,
  ty_ok t = true -> rt_ok t = true -> encode_ty t v = Some cs ->
  p + len (flat cs) <= L -> len (flat cs) < two64 -> (length (flat cs ++ rest) < fuel)%nat ->
  decode_ty c t fuel (mkdst p (flat cs ++ rest) L) = (Ok v, mkdst (p + len (flat cs)) rest L).
Proof. exact roundtrip. Qed.

(* The same through the entry point the extracted model is run with (fuel = remaining bytes + 1). *)
Theorem C01_roundtrip_auto : forall c t v cs rest,
  ty_ok t = true -> rt_ok t = true -> encode_ty t v = Some cs -> len (flat cs) < two64 ->
  run (decode_auto c t) (flat cs ++ rest) = (Ok v, mkdst (len (flat cs)) rest (len (flat cs ++ rest))).
Proof. exact roundtrip_auto. Qed.

(* The encoder refuses a typed value exactly when it contains a SystemTime before the epoch … *)
Theorem C01_refusals : forall t v, has_ty t v = true -> (encode_ty t v = None <-> refused t v = true).
Proof. exact refusals. Qed.

(* … and accepts nothing that is not typed: its domain is exactly has_ty minus refused. *)
Theorem C01_encode_domain : forall t v,
  (exists cs, encode_ty t v = Some cs) <-> has_ty t v = true /\ refused t v = false.
Proof. exact encode_domain. Qed.

(* The excluded shape is lossy by construction: Some(None) : Option<Option<T>> decodes as None. *)
Theorem C01_opt_opt_lossy : forall c t, exists v cs, encode_ty (TyOpt (TyOpt t)) v = Some cs /\
  run (decode_auto c (TyOpt (TyOpt t))) (flat cs) = (Ok VNone, mkdst 1 [] 1) /\ v <> VNone.
Proof. exact opt_opt_lossy. Qed.

(* Every strict prefix of an encoding makes the decoder fail with the end-of-input class: never a
   value, never another error class, never a panic, never out of fuel.  (PFX cases of the C01 plugin;
   stated for C04.)
   GOAL (not proved in this generality): the same without the hypothesis rt_ok t.  The proof decodes
   the complete elements in front of the cut with C01_roundtrip, which needs rt_ok; for descriptors with
   an Option directly around an Option a weaker "decodes to some value, consuming exactly the element"
   lemma would be needed.  The bound len (flat cs) < two64 says the encoding fits a usize-sized buffer. *)
Theorem C04_prefix_types_partial : forall c t v cs k fuel,
  ty_ok t = true -> rt_ok t = true -> encode_ty t v = Some cs -> len (flat cs) < two64 ->
  (k < length (flat cs))%nat -> (k < fuel)%nat ->
  exists q, decode_ty c t fuel (start (firstn k (flat cs))) = (Err EndOfInput, q).
Proof. exact prefix_eoi. Qed.

Theorem C04_prefix_types_auto_partial : forall c t v cs k,
  ty_ok t = true -> rt_ok t = true -> encode_ty t v = Some cs -> len (flat cs) < two64 ->
  (k < length (flat cs))%nat ->
  exists q, run (decode_auto c t) (firstn k (flat cs)) = (Err EndOfInput, q).
Proof. exact prefix_eoi_auto. Qed.

Example C04_prefix_types_example :
  match encode_ty rt_example_ty rt_example_val with
  | Some cs => forallb (fun k => match run (decode_auto cfg_full rt_example_ty) (firstn k (flat cs)) with
                                 | (Err EndOfInput, _) => true | _ => false end)
                       (seq 0 (length (flat cs))) = true
  | None => False
  end.
Proof. vm_compute. reflexivity. Qed.

(* the hypotheses are satisfiable by a nested, non-trivial instance *)
Example C01_roundtrip_example :
  ty_ok rt_example_ty = true /\ rt_ok rt_example_ty = true /\ has_ty rt_example_ty rt_example_val = true /\
  match encode_ty rt_example_ty rt_example_val with
  | Some cs => (50 <? len (flat cs)) = true /\
               run (decode_auto cfg_full rt_example_ty) (flat cs ++ [7])
               = (Ok rt_example_val, mkdst (len (flat cs)) [7] (len (flat cs) + 1))
  | None => False
  end.
Proof. vm_compute. auto. Qed.

Example C01_refusals_example :
  let t := TySeq (TyOpt TySystemTime) in
  let v := VList [VSome (VVar 0 (VList [VNat 5; VNat 0])); VNone; VSome (VVar 1 (VList [VNat 5; VNat 0]))] in
  has_ty t v = true /\ refused t v = true /\ encode_ty t v = None.
Proof. vm_compute. auto. Qed.

Print Assumptions C01_roundtrip.
Print Assumptions C01_roundtrip_auto.
Print Assumptions C01_refusals.
Print Assumptions C01_encode_domain.
Print Assumptions C01_opt_opt_lossy.
Print Assumptions C04_prefix_types_partial.
Print Assumptions C04_prefix_types_auto_partial.
