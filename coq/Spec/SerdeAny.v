(* Spec/SerdeAny.v — the vocabulary of the C17 round-trip statement for the shapes that go through
   deserialize_any / serde's Content buffer (internally tagged, adjacently tagged, untagged, flattened, ShAny):

     cont_of            the Content tree serde's ContentVisitor builds when the bridge's deserialize_any reads the
                        serialisation of a call tree (integers in the narrowest type datatype() reports, unit as an
                        empty sequence, char as an integer, Some / newtype struct transparent, text borrowed)
     conf_any           typing: v is the call tree the (derived) Serialize impl of a type of shape sh makes
                        (extends SerdeDoc.conforms to every shape; for tagged / flattened types it also excludes the
                        key clashes that serde itself cannot represent in any format: a map key equal to the tag of an
                        internally tagged enum, a flattened map key equal to a sibling field name)
     buf_conf           typing + no F12 leaf, for a value that is read back from the Content buffer
                        (owned = ContentDeserializer, not owned = ContentRefDeserializer)
     f12_free           the complement of finding F12, on shape and value (mirrored by checks/serdegen.py f12_hit)
     untagged_disjoint  the side condition of untagged enums: an earlier variant rejects whatever a later variant
                        (that can hold an F12-free value at all) writes
     shape_ok_any       static well-formedness of a shape (names are text and distinct, payload kinds, which flattened
                        kinds the model covers)
   Definitions only. *)
From MC Require Export SerdeDoc SerdeCont.
Local Open Scope N_scope.

(* ------------------------------------------------------------------ small helpers *)
Definition is_nil {A} (l : list A) : bool := match l with [] => true | _ => false end.
Definition is_unit_val (v : sval) : bool := match v with SUnit => true | _ => false end.

Fixpoint alt_keys {A} (l : list A) : list A := match l with k :: _ :: r => k :: alt_keys r | _ => [] end.

Definition key_text (k : sval) : option bytes := match cont_of k with CStr _ b => Some b | _ => None end.

(* ---- internally tagged: the tag entry taken out again ---- *)
Definition int_untag (tag : bytes) (v : sval) : option (bytes * sval) :=
  match v with
  | SStruct n ((t, SStr name) :: fs) => if beq t tag && (1 <=? n) then Some (name, SStruct (n - 1) fs) else None
  | SMap (Some n) (SStr t :: SStr name :: kvs) =>
      if beq t tag && (1 <=? n) then Some (name, SMap (Some (n - 1)) kvs) else None
  | SMap None (SStr t :: SStr name :: kvs) => if beq t tag then Some (name, SMap None kvs) else None
  | _ => None
  end.

Definition int_split {A} (tag : bytes) (vs : list (bytes * (vkind * A))) (v : sval)
  : option (nat * (bytes * (vkind * (A * sval)))) :=
  match int_untag tag v with
  | Some (name, body) =>
      match find_idx name vs 0 with Some (i, (k, a)) => Some (i, (name, (k, (a, body)))) | None => None end
  | None => None
  end.

(* the payload's own call tree, given what is left after the tag was taken out *)
Definition int_payload (s : shape) (body : sval) : option sval :=
  match s with
  | ShUnit => match body with SMap (Some n) [] => if n =? 0 then Some SUnit else None | _ => None end
  | ShUnitStruct => match body with SMap (Some n) [] => if n =? 0 then Some SUnitStruct else None | _ => None end
  | ShNewtypeStruct _ => match body with SStruct _ _ => Some (SNewtypeStruct body) | _ => None end
  | _ => match body with SStruct _ _ | SMap _ _ => Some body | _ => None end
  end.

Definition is_empty_struct (v : sval) : bool := match v with SStruct n [] => n =? 0 | _ => false end.

(* no other entry of the written map is the tag (serde: duplicate field, in any format) *)
Definition no_tag_key (tag : bytes) (body : sval) : bool :=
  match body with
  | SMap _ kvs => forallb (fun k => negb (is_tag_key tag (cont_of k))) (alt_keys kvs)
  | SStruct _ fs => forallb (fun p : bytes * sval => negb (beq (fst p) tag)) fs
  | _ => true
  end.

(* ---- flattened structs ---- *)
(* the entries a flattened struct contributes: its fields in order, keyed by name *)
Definition ent_b (f : shape -> sval -> bool) := fix go (ifs : list (bytes * shape)) (es : list sval) : option (list sval) :=
  match ifs with
  | [] => Some es
  | (n, s) :: r => match es with
                   | SStr n' :: x :: es' => if beq n n' && f s x then go r es' else None
                   | _ => None
                   end
  end.

(* every key the struct itself claims: direct fields and the fields of flattened structs *)
Fixpoint flat_names (fs : list (bytes * (bool * shape))) : list bytes :=
  match fs with
  | [] => []
  | (n, (false, _)) :: r => n :: flat_names r
  | (_, (true, ShStruct ifs)) :: r => map fst ifs ++ flat_names r
  | _ :: r => flat_names r
  end.

(* a flattened map's keys are text (the key loop reads them with deserialize_str) and none is claimed by the struct *)
Definition flat_keys_ok (names : list bytes) (es : list sval) : bool :=
  forallb (fun k => match key_text k with Some b => negb (existsb (beq b) names) | None => false end) (alt_keys es).

(* which flattened kinds the model covers; a flattened map takes every unclaimed entry, so it comes last *)
Fixpoint flat_kinds_ok (fs : list (bytes * (bool * shape))) : bool :=
  match fs with
  | [] => true
  | (_, (false, _)) :: r => flat_kinds_ok r
  | (_, (true, s)) :: r =>
      match s with
      | ShStruct _ | ShUnit => flat_kinds_ok r
      | ShMap _ _ _ => is_nil r
      | _ => false
      end
  end.

(* ---- untagged: the first variant the value belongs to ---- *)
Definition unt_first (v : sval) (dflt : bool) (fconf fbuf : shape -> sval -> bool) :=
  fix first (l : list (vkind * shape)) : bool :=
    match l with
    | [] => dflt
    | (k, s) :: r =>
        match k with
        | KUnit => if is_unit_val v then false else first r      (* UntaggedUnitVisitor never sees visit_unit *)
        | _ => if fconf s v then fbuf s v else first r
        end
    end.

(* ---- flattened structs: the walks over fields and written entries ---- *)
Definition flat_conf_go (names : list bytes) (f : shape -> sval -> bool) :=
  fix go (l : list (bytes * (bool * shape))) (es : list sval) {struct l} : bool :=
    match l with
    | [] => is_nil es
    | (n, (false, s)) :: r =>
        match es with SStr n' :: x :: es' => beq n n' && f s x && go r es' | _ => false end
    | (_, (true, s)) :: r =>
        match s with
        | ShStruct ifs => match ent_b f ifs es with Some es' => go r es' | None => false end
        | ShMap _ k x => is_nil r && alt_b (f k) (f x) es && flat_keys_ok names es
        | ShUnit => go r es
        | _ => false
        end
    end.

Definition flat_free_go (ffree : shape -> sval -> bool) (fbuf : bool -> shape -> sval -> bool) :=
  fix go (l : list (bytes * (bool * shape))) (es : list sval) {struct l} : bool :=
    match l with
    | [] => true
    | (_, (false, s)) :: r =>
        match es with _ :: x :: es' => ffree s x && go r es' | _ => true end
    | (_, (true, s)) :: r =>
        match s with
        | ShStruct ifs => match ent_b (fbuf true) ifs es with Some es' => go r es' | None => false end
        | ShMap _ k x => alt_b (fbuf false k) (fbuf false x) es
        | ShUnit => go r es                                        (* FlatMapDeserializer::deserialize_unit *)
        | _ => true
        end
    end.

(* ------------------------------------------------------------------ typing, every shape *)
Fixpoint conf_any (sh : shape) (v : sval) {struct sh} : bool :=
  match sh, v with
  | ShBool, SBool _ => true
  | ShI w, SI w' z => iw_eqb w w' && zin w z
  | ShU w, SU w' n => iw_eqb w w' && (n <=? umax w)
  | ShF32, SF32 b => b <? 4294967296
  | ShF64, SF64 b => b <? two64
  | ShChar, SChar c => is_scalar c
  | ShStr _, SStr b => str_ok b
  | ShDisplayStr, SCollectStr b => str_ok b
  | ShBytes _, SBytes b => bytes_ok b && (len b <? two64)
  | ShOption _, SNone => true
  | ShOption s, SSome x => conf_any s x
  | ShUnit, SUnit => true
  | ShUnitStruct, SUnitStruct => true
  | ShNewtypeStruct s, SNewtypeStruct x => conf_any s x
  | ShSeq known s, SSeq n l =>
      (match n with Some k => known && (k =? len l) | None => negb known end) && (len l <? two64) && forallb (conf_any s) l
  | ShTuple ss, STuple n l => (n =? len ss) && (n <? two64) && zip_b conf_any ss l
  | ShTupleStruct ss, STupleStruct n l => (n =? len ss) && (n <? two64) && zip_b conf_any ss l
  | ShMap known k v, SMap n kvs =>
      (match n with Some m => known && (m =? len kvs / 2) | None => negb known end) && (len kvs / 2 <? two64)
      && alt_b (conf_any k) (conf_any v) kvs
  | ShStruct fs, SStruct n vs => (n =? len fs) && (n <? two64) && zip_b (field_b conf_any) fs vs
  | ShEnum vs, SUnitVariant i name =>
      match variant_at vs i name KUnit with Some _ => true | None => false end
  | ShEnum vs, SNewtypeVariant i name x =>
      match variant_at (map (fun p : bytes * (vkind * shape) => let (n, ks) := p in let (k, s) := ks in (n, (k, conf_any s))) vs)
                       i name KNewtype with
      | Some f => f x | None => false end
  | ShEnum vs, STupleVariant i name n l =>
      match variant_at (map (fun p : bytes * (vkind * shape) => let (n, ks) := p in let (k, s) := ks in (n, (k, conf_any s))) vs)
                       i name KTuple with
      | Some f => f (STuple n l) | None => false end
  | ShEnum vs, SStructVariant i name n fs =>
      match variant_at (map (fun p : bytes * (vkind * shape) => let (n, ks) := p in let (k, s) := ks in (n, (k, conf_any s))) vs)
                       i name KStruct with
      | Some f => f (SStruct n fs) | None => false end
  | ShInternal tag vs, _ =>
      (* the payload's own struct / map with the tag entry first (TaggedSerializer) *)
      match int_split tag (map (fun p : bytes * (vkind * shape) =>
                                  let (n, ks) := p in let (k, s) := ks in (n, (k, (s, conf_any s)))) vs) v with
      | Some (_, (_, (k, ((s, f), body)))) =>
          match k with
          | KUnit => is_empty_struct body
          | KTuple => false
          | KNewtype | KStruct =>
              no_tag_key tag body && match int_payload s body with Some x => f x | None => false end
          end
      | None => false
      end
  | ShAdjacent tag content vs, SStruct n ((t, SUnitVariant i name) :: rest) =>
      (* struct { tag: <unit variant>, content: payload } *)
      beq t tag &&
      match nth_error (map (fun p : bytes * (vkind * shape) =>
                              let (n', ks) := p in let (k, s) := ks in (n', (k, conf_any s))) vs) (N.to_nat i) with
      | Some (n', (k, f)) =>
          beq n' name &&
          match k, rest with
          | KUnit, [] => n =? 1
          | KUnit, _ => false
          | _, [(c', p)] => (n =? 2) && beq c' content && f p
          | _, _ => false
          end
      | None => false
      end
  | ShUntagged vs, _ =>
      (* the content alone *)
      existsb (fun p : vkind * shape => let (k, s) := p in
                 match k with KUnit => is_unit_val v | _ => conf_any s v end) vs
  | ShFlat fs, SMap None es =>
      (* serialize_map(None): direct fields by name, flattened structs spliced in, a flattened map last *)
      flat_conf_go (flat_names fs) conf_any fs es
  | ShAny, _ => any_canon v
  | _, _ => false
  end.

(* ------------------------------------------------------------------ typing + no F12 leaf, under the buffer *)
Fixpoint buf_conf (owned : bool) (sh : shape) (v : sval) {struct sh} : bool :=
  match sh, v with
  | ShBool, SBool _ => true
  | ShI w, SI w' z => iw_eqb w w' && zin w z
  | ShU w, SU w' n => iw_eqb w w' && (n <=? umax w)
  | ShF32, SF32 b => b <? 4294967296
  | ShF64, SF64 b => b <? two64
  | ShStr _, SStr b => str_ok b
  | ShDisplayStr, SCollectStr b => str_ok b
  | ShBytes _, SBytes b => bytes_ok b && (len b <? two64)
  | ShOption _, SNone => true
  | ShOption s, SSome x => buf_conf owned s x
  | ShUnitStruct, SUnitStruct => owned              (* ContentDeserializer::deserialize_unit_struct takes an empty seq *)
  | ShNewtypeStruct s, SNewtypeStruct x => buf_conf owned s x
  | ShSeq known s, SSeq n l =>
      (match n with Some k => known && (k =? len l) | None => negb known end) && (len l <? two64)
      && forallb (buf_conf owned s) l
  | ShTuple ss, STuple n l => (n =? len ss) && (n <? two64) && zip_b (buf_conf owned) ss l
  | ShTupleStruct ss, STupleStruct n l => (n =? len ss) && (n <? two64) && zip_b (buf_conf owned) ss l
  | ShMap known k v, SMap n kvs =>
      (match n with Some m => known && (m =? len kvs / 2) | None => negb known end) && (len kvs / 2 <? two64)
      && alt_b (buf_conf owned k) (buf_conf owned v) kvs
  | ShStruct fs, SStruct n vs => (n =? len fs) && (n <? two64) && zip_b (field_b (buf_conf owned)) fs vs
  | ShEnum vs, SUnitVariant i name =>
      match variant_at vs i name KUnit with Some _ => true | None => false end
  | ShEnum vs, SNewtypeVariant i name x =>
      match variant_at (map (fun p : bytes * (vkind * shape) => let (n, ks) := p in let (k, s) := ks in (n, (k, buf_conf owned s))) vs)
                       i name KNewtype with
      | Some f => f x | None => false end
  | ShEnum vs, STupleVariant i name n l =>
      match variant_at (map (fun p : bytes * (vkind * shape) => let (n, ks) := p in let (k, s) := ks in (n, (k, buf_conf owned s))) vs)
                       i name KTuple with
      | Some f => f (STuple n l) | None => false end
  | ShEnum vs, SStructVariant i name n fs =>
      match variant_at (map (fun p : bytes * (vkind * shape) => let (n, ks) := p in let (k, s) := ks in (n, (k, buf_conf owned s))) vs)
                       i name KStruct with
      | Some f => f (SStruct n fs) | None => false end
  | ShUntagged vs, _ =>
      (* the first variant the value belongs to; its content is re-read through ContentRefDeserializer *)
      unt_first v false conf_any (buf_conf false) vs
  | ShAny, _ => any_canon v
  | _, _ => false              (* (), char; tagged / flattened types below a buffered node are not modelled (fc) *)
  end.

(* ------------------------------------------------------------------ the complement of F12, on shape and value *)
Fixpoint f12_free (sh : shape) (v : sval) {struct sh} : bool :=
  match sh, v with
  | ShOption s, SSome x => f12_free s x
  | ShNewtypeStruct s, SNewtypeStruct x => f12_free s x
  | ShSeq _ s, SSeq _ l => forallb (f12_free s) l
  | ShTuple ss, STuple _ l => zip_b f12_free ss l
  | ShTupleStruct ss, STupleStruct _ l => zip_b f12_free ss l
  | ShMap _ k x, SMap _ kvs => alt_b (f12_free k) (f12_free x) kvs
  | ShStruct fs, SStruct _ vs => zip_b (fun (p : bytes * shape) (q : bytes * sval) => f12_free (snd p) (snd q)) fs vs
  | ShEnum vs, SNewtypeVariant i _ x =>
      match nth_error (map (fun p : bytes * (vkind * shape) => f12_free (snd (snd p))) vs) (N.to_nat i) with
      | Some f => f x | None => true end
  | ShEnum vs, STupleVariant i _ n l =>
      match nth_error (map (fun p : bytes * (vkind * shape) => f12_free (snd (snd p))) vs) (N.to_nat i) with
      | Some f => f (STuple n l) | None => true end
  | ShEnum vs, SStructVariant i _ n fs =>
      match nth_error (map (fun p : bytes * (vkind * shape) => f12_free (snd (snd p))) vs) (N.to_nat i) with
      | Some f => f (SStruct n fs) | None => true end
  | ShAdjacent _ _ vs, SStruct _ [(_, SUnitVariant i _); (_, p)] =>
      (* read directly: the tag is written first *)
      match nth_error (map (fun p : bytes * (vkind * shape) => f12_free (snd (snd p))) vs) (N.to_nat i) with
      | Some f => f p | None => true end
  | ShUntagged vs, _ => unt_first v true conf_any (buf_conf false) vs
  | ShInternal tag vs, _ =>
      match int_split tag vs v with
      | Some (_, (_, (k, (s, body)))) =>
          match k with
          | KUnit => true
          | _ => match s with
                 | ShUnit | ShUnitStruct => true                        (* written as the bare tag map *)
                 | _ => match int_payload s body with Some x => buf_conf true s x | None => true end
                 end
          end
      | None => true
      end
  | ShFlat fs, SMap None es => flat_free_go f12_free buf_conf fs es
  | _, _ => true
  end.

(* ------------------------------------------------------------------ untagged enums: earlier variants reject *)
Inductive ccls := KcBool | KcInt | KcF32 | KcF64 | KcStr | KcBytes | KcNull | KcSeq | KcMap.
Definition ccls_eqb (a b : ccls) : bool :=
  match a, b with
  | KcBool, KcBool | KcInt, KcInt | KcF32, KcF32 | KcF64, KcF64 | KcStr, KcStr | KcBytes, KcBytes
  | KcNull, KcNull | KcSeq, KcSeq | KcMap, KcMap => true
  | _, _ => false
  end.
Definition cls_in (a : ccls) (l : list ccls) : bool := existsb (ccls_eqb a) l.
Definition cls_meet (l m : list ccls) : bool := existsb (fun a => cls_in a m) l.
Definition cls_all : list ccls := [KcBool; KcInt; KcF32; KcF64; KcStr; KcBytes; KcNull; KcSeq; KcMap].

(* the class of a Content value, as far as cont_of produces it *)
Definition cls_of (x : content) : option ccls :=
  match x with
  | CBool _ => Some KcBool | CU _ _ | CI _ _ => Some KcInt | CF32 _ => Some KcF32 | CF64 _ => Some KcF64
  | CStr _ _ => Some KcStr | CBytes _ _ => Some KcBytes | CNone => Some KcNull | CSeq _ => Some KcSeq | CMap _ => Some KcMap
  | CChar _ | CSome _ | CUnit | CNewtype _ => None
  end.

(* classes a value of the shape may be written as *)
Fixpoint produces (sh : shape) : list ccls :=
  match sh with
  | ShBool => [KcBool] | ShI _ | ShU _ | ShChar => [KcInt] | ShF32 => [KcF32] | ShF64 => [KcF64]
  | ShStr _ | ShDisplayStr => [KcStr] | ShBytes _ => [KcBytes]
  | ShOption s => KcNull :: produces s
  | ShUnit | ShUnitStruct | ShSeq _ _ | ShTuple _ | ShTupleStruct _ => [KcSeq]
  | ShNewtypeStruct s => produces s
  | ShMap _ _ _ | ShStruct _ | ShInternal _ _ | ShAdjacent _ _ _ | ShFlat _ => [KcMap]
  | ShEnum _ => [KcStr; KcMap]
  | ShUntagged vs => flat_map (fun p : vkind * shape => let (k, s) := p in
                                 match k with KUnit | KTuple => [KcSeq] | KStruct => [KcMap] | KNewtype => produces s end) vs
  | ShAny => cls_all
  | ShIgnored => []
  end.

(* classes fc may accept for the shape (over-approximation; Content values in the image of cont_of) *)
Fixpoint accepts (owned : bool) (sh : shape) : list ccls :=
  match sh with
  | ShBool => [KcBool] | ShI _ | ShU _ => [KcInt] | ShF32 => [KcF32] | ShF64 => [KcF32; KcF64]
  | ShChar => [KcStr]
  | ShStr _ | ShDisplayStr => [KcStr; KcBytes] | ShBytes _ => [KcBytes]
  | ShOption s => KcNull :: accepts owned s
  | ShUnit => if owned then [KcMap] else []
  | ShUnitStruct => if owned then [KcMap; KcSeq] else []
  | ShNewtypeStruct s => accepts owned s
  | ShSeq _ _ | ShTuple _ | ShTupleStruct _ => [KcSeq]
  | ShMap _ _ _ => [KcMap]
  | ShStruct _ => [KcMap; KcSeq]
  | ShEnum _ => [KcStr; KcMap]
  | ShUntagged vs => flat_map (fun p : vkind * shape => let (k, s) := p in
                                 match k with KUnit => [KcNull] | KStruct => [KcMap] | _ => accepts false s end) vs
  | ShAny | ShIgnored => cls_all
  | ShInternal _ _ | ShAdjacent _ _ _ | ShFlat _ => []
  end.

(* every value of the shape is in the F12 class when read back from the buffer *)
Fixpoint must_opaque (owned : bool) (sh : shape) : bool :=
  match sh with
  | ShUnit | ShChar | ShInternal _ _ | ShAdjacent _ _ _ | ShFlat _ | ShIgnored => true
  | ShUnitStruct => negb owned
  | ShNewtypeStruct s => must_opaque owned s
  | ShTuple ss | ShTupleStruct ss => existsb (must_opaque owned) ss
  | ShStruct fs => existsb (fun p : bytes * shape => let (_, s) := p in must_opaque owned s) fs
  | _ => false
  end.

(* may variant a (earlier) accept what variant b (later) writes?  One refinement below the class level: a tuple
   against a sequence is compared position by position. *)
Definition may_accept (a b : vkind * shape) : bool :=
  let (ka, sa) := a in let (kb, sb) := b in
  match kb with
  | KUnit => false                                   (* the later variant is F12 anyway *)
  | _ =>
    if must_opaque false sb then false else
    match ka with
    | KUnit => cls_in KcNull (produces sb)
    | KStruct => cls_in KcMap (produces sb)
    | _ =>
      match sa, sb with
      | ShTuple ss, ShSeq _ e | ShTupleStruct ss, ShSeq _ e =>
          forallb (fun s => cls_meet (accepts false s) (produces e)) ss
      | _, _ => cls_meet (accepts false sa) (produces sb)
      end
    end
  end.

Fixpoint pairs_ok {A} (f : A -> A -> bool) (l : list A) : bool :=
  match l with [] => true | a :: r => forallb (fun b => negb (f a b)) r && pairs_ok f r end.

Fixpoint untagged_disjoint (sh : shape) : bool :=
  match sh with
  | ShOption s | ShNewtypeStruct s | ShSeq _ s => untagged_disjoint s
  | ShTuple ss | ShTupleStruct ss => forallb untagged_disjoint ss
  | ShMap _ k v => untagged_disjoint k && untagged_disjoint v
  | ShStruct fs => forallb (fun p : bytes * shape => let (_, s) := p in untagged_disjoint s) fs
  | ShEnum vs | ShInternal _ vs | ShAdjacent _ _ vs =>
      forallb (fun p : bytes * (vkind * shape) => let (_, ks) := p in let (_, s) := ks in untagged_disjoint s) vs
  | ShUntagged vs =>
      pairs_ok may_accept vs && forallb (fun p : vkind * shape => let (_, s) := p in untagged_disjoint s) vs
  | ShFlat fs => forallb (fun p : bytes * (bool * shape) => let (_, q) := p in let (_, s) := q in untagged_disjoint s) fs
  | _ => true
  end.

(* ------------------------------------------------------------------ static well-formedness, every shape *)
Fixpoint shape_ok_any (sh : shape) : bool :=
  match sh with
  | ShOption s | ShNewtypeStruct s | ShSeq _ s => shape_ok_any s
  | ShTuple ss | ShTupleStruct ss => (len ss <? two64) && forallb shape_ok_any ss
  | ShMap _ k v => shape_ok_any k && shape_ok_any v
  | ShStruct fs =>
      names_distinct (map fst fs) && forallb (fun p : bytes * shape => let (n, s) := p in str_ok n && shape_ok_any s) fs
  | ShEnum vs =>
      names_distinct (map fst vs) && (len vs <? 4294967296)
      && forallb (fun p : bytes * (vkind * shape) =>
                    let (n, ks) := p in let (k, s) := ks in str_ok n && payload_ok k s && shape_ok_any s) vs
  | ShInternal tag vs =>
      str_ok tag && names_distinct (map fst vs) && (len vs <? 4294967296)
      && forallb (fun p : bytes * (vkind * shape) =>
                    let (n, ks) := p in let (k, s) := ks in str_ok n && payload_ok k s && shape_ok_any s) vs
  | ShAdjacent tag content vs =>
      str_ok tag && str_ok content && negb (beq tag content) && names_distinct (map fst vs) && (len vs <? 4294967296)
      && forallb (fun p : bytes * (vkind * shape) =>
                    let (n, ks) := p in let (k, s) := ks in str_ok n && payload_ok k s && shape_ok_any s) vs
  | ShUntagged vs =>
      forallb (fun p : vkind * shape => let (k, s) := p in payload_ok k s && shape_ok_any s) vs
  | ShFlat fs =>
      names_distinct (flat_names fs) && forallb str_ok (flat_names fs) && flat_kinds_ok fs
      && forallb (fun p : bytes * (bool * shape) => let (_, q) := p in let (_, s) := q in shape_ok_any s) fs
  | _ => true
  end.
