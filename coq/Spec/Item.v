(* Spec/Item.v — from the data model back to syntax: the preferred encoding tree of an item, and what
   it means for an item to be representable (arguments below 2^64, byte values below 256, simple
   values outside 24..31, float bit patterns in range, maps with an even number of entries). *)
From MC Require Export Cbor.
Local Open Scope N_scope.

Fixpoint enc_of_item (i : item) : enc :=
  match i with
  | IUInt n => EUInt (min_width n) n
  | INInt n => ENInt (min_width n) n
  | IBytes b => EBytes (min_width (len b)) b
  | IText b => EText (min_width (len b)) b
  | IArray l => EArray (min_width (len l)) (map enc_of_item l)
  | IMap l => EMap (min_width (len l / 2)) (map enc_of_item l)
  | ITag t i' => ETag (min_width t) t (enc_of_item i')
  | ISimple n => ESimple n
  | IF16 b => EF16 b | IF32 b => EF32 b | IF64 b => EF64 b
  end.

Definition lt64 (n : N) : bool := n <? 18446744073709551616.

Fixpoint item_ok (i : item) : bool :=
  match i with
  | IUInt n | INInt n => lt64 n
  | IBytes b | IText b => lt64 (len b) && bytes_ok b
  | IArray l => lt64 (len l) && forallb item_ok l
  | IMap l => N.even (len l) && lt64 (len l / 2) && forallb item_ok l
  | ITag t i' => lt64 t && item_ok i'
  | ISimple n => (n <? 24) || ((32 <=? n) && (n <? 256))
  | IF16 b => b <? 65536
  | IF32 b => b <? 4294967296
  | IF64 b => lt64 b
  end.
