(* Spec/DeriveDoc.v — the wire format documented for minicbor-derive (minicbor-derive/src/lib.rs:390-471,
   :141-165) as a plain recursive function from a definition and a value to an encoding tree.
   Specification side: it reads the same schema AST as the model but shares no code with
   Model/DeriveEnc.v (no sorting of field lists, no run-time counters, no is_nil selection):
     array  — position i holds the field with index i, every other position (gap) is null, an absent
              optional is null, the array ends at the highest present index;
     map    — one entry per present field, keys ascending, absent optionals omitted;
     enum   — [index, body], or the bare index for index_only;
     tags   — precede what they annotate; transparent — the field; skipped fields — nothing.
   Widths are left at W0 here; the format is `ser (prefer tree)`. *)
From MC Require Export DeriveSchema Cbor Item Denote.
Local Open Scope N_scope.

Definition t_uint (n : N) : enc := EUInt W0 n.
Definition t_int (z : Z) : enc := if (0 <=? z)%Z then EUInt W0 (Z.to_N z) else ENInt W0 (Z.to_N (-1 - z)).
Definition t_null : enc := ESimple 22.
Definition t_tagged (t : option N) (e : enc) : enc := match t with Some n => ETag W0 n e | None => e end.

Definition omap_list {A B} (f : A -> option B) : list A -> option (list B) :=
  fix go l := match l with
              | [] => Some []
              | x :: r => match f x, go r with Some y, Some ys => Some (y :: ys) | _, _ => None end
              end.

Definition oarr (o : option (list enc)) : option enc :=
  match o with Some es => Some (EArray W0 es) | None => None end.

(* the documented encoding of the built-in types: the preferred tree (Spec/Item.v) of the data-model item the
   value denotes (Spec/Denote.v — the crate documentation of each impl) *)
Definition ty_tree (t : ty) (v : value) : option enc := option_map enc_of_item (denote t v).

(* the generated codec module `nz` documents itself as: 0 is written as null, n > 0 as the unsigned integer n *)
Definition cust_tree (v : value) : option enc :=
  match v with VNat n => Some (if n =? 0 then t_null else t_uint n) | _ => None end.

(* an optional value that is absent: None of an Option type; the nil value of a nil-aware codec *)
Definition absent (f : field) (v : value) : bool :=
  match f_codec f with
  | CoCustom na => na && match v with VNat n => n =? 0 | _ => false end
  | _ => is_opt_fty (f_ty f) && match v with VNone => true | _ => false end
  end.

Section Doc.
Variable rec : nat -> value -> option enc.

Fixpoint fty_tree (f : fty) (v : value) {struct f} : option enc :=
  match f, v with
  | FTy t, _ => ty_tree t v
  | FRef d, _ => rec d v
  | FOpt _, VNone => Some t_null
  | FOpt f', VSome v' => fty_tree f' v'
  | FSeq f', VList l => oarr (omap_list (fty_tree f') l)
  | _, _ => None
  end.

(* a field's value as a data item, without its tag *)
Definition field_tree (f : field) (v : value) : option enc :=
  match f_codec f with
  | CoCustom _ => cust_tree v
  | _ => fty_tree (f_ty f) v
  end.

(* ... and with it: tags precede what they annotate *)
Definition field_item (f : field) (v : value) : option enc :=
  match field_tree f v with Some e => Some (t_tagged (f_tag f) e) | None => None end.

(* the declared, non-skipped fields with their values *)
Fixpoint decl (fs : list field) (vs : list value) : list (field * value) :=
  match fs, vs with
  | f :: fr, v :: vr => if f_skip f then decl fr vr else (f, v) :: decl fr vr
  | _, _ => []
  end.

Fixpoint at_index (l : list (field * value)) (i : N) : option (field * value) :=
  match l with
  | [] => None
  | (f, v) :: r => if f_idx f =? i then Some (f, v) else at_index r i
  end.

(* the highest index of a present field, + 1 (0 if none is present) *)
Fixpoint array_len (l : list (field * value)) : N :=
  match l with
  | [] => 0
  | (f, v) :: r => if absent f v then array_len r else N.max (f_idx f + 1) (array_len r)
  end.

(* positions n-1, …, 0 of the array, accumulated front to back *)
Fixpoint array_items (l : list (field * value)) (n : nat) (acc : list enc) : option (list enc) :=
  match n with
  | O => Some acc
  | S n' =>
      match at_index l (N.of_nat n') with
      | Some (f, v) => match field_item f v with Some e => array_items l n' (e :: acc) | None => None end
      | None => array_items l n' (t_null :: acc)
      end
  end.

Definition doc_array (l : list (field * value)) : option enc :=
  oarr (array_items l (N.to_nat (array_len l)) []).

(* the present fields in ascending key order: repeatedly take the smallest key above the last one *)
Fixpoint doc_next_key (l : list (field * value)) (lo : option N) (best : option N) : option N :=
  match l with
  | [] => best
  | (f, _) :: r =>
      let k := f_idx f in
      let above := match lo with Some b => b <? k | None => true end in
      let better := match best with Some b => k <? b | None => true end in
      doc_next_key r lo (if above && better then Some k else best)
  end.

Fixpoint map_entries (l : list (field * value)) (lo : option N) (fuel : nat) : option (list enc) :=
  match fuel with
  | O => Some []
  | S fuel' =>
      match doc_next_key l lo None with
      | None => Some []
      | Some k =>
          match at_index l k with
          | Some (f, v) =>
              if absent f v then map_entries l (Some k) fuel'
              else match field_item f v, map_entries l (Some k) fuel' with
                   | Some e, Some es => Some (t_uint k :: e :: es)
                   | _, _ => None
                   end
          | None => None
          end
      end
  end.

Definition doc_map (l : list (field * value)) : option enc :=
  match map_entries l None (length l) with Some es => Some (EMap W0 es) | None => None end.

Definition doc_fields (e : encoding) (fs : list field) (vs : list value) : option enc :=
  if Nat.eqb (length vs) (length fs) then
    match e with AsArray => doc_array (decl fs vs) | AsMap => doc_map (decl fs vs) end
  else None.

Definition doc_def (df : def) (v : value) : option enc :=
  match df, v with
  | DStruct e tag transparent _ fs, VList vs =>
      if transparent then
        match decl fs vs, vs with
        | [(f, x)], [_] => field_tree f x                       (* "identical to the one of the inner type" *)
        | _, _ => None
        end
      else match doc_fields (struct_encoding e) fs vs with
           | Some b => Some (t_tagged tag b)
           | None => None
           end
  | DEnum e tag index_only vars, VVar i (VList vs) =>
      match find_variant vars i with
      | None => None
      | Some va =>
          if index_only then
            match v_fields va, vs with
            | [], [] => Some (t_tagged tag (t_uint i))
            | _, _ => None
            end
          else
            let body :=
              if is_unit (v_shape va) then
                match vs with
                | [] => Some (match variant_encoding e va with AsArray => EArray W0 [] | AsMap => EMap W0 [] end)
                | _ => None
                end
              else doc_fields (variant_encoding e va) (v_fields va) vs in
            match body with
            | Some b => Some (t_tagged tag (EArray W0 [t_uint i; t_tagged (v_tag va) b]))
            | None => None
            end
      end
  | _, _ => None
  end.
End Doc.

Fixpoint doc_tree_f (k : nat) (Sc : schema) (d : nat) (v : value) : option enc :=
  match k with
  | O => None
  | S k' =>
      match nth_error Sc d with
      | Some df => doc_def (fun d' v' => if Nat.ltb d' d then doc_tree_f k' Sc d' v' else None) df v
      | None => None
      end
  end.

Definition doc_tree (Sc : schema) (d : nat) (v : value) : option enc := doc_tree_f (S d) Sc d v.

(* the documented bytes *)
Definition doc_bytes (Sc : schema) (d : nat) (v : value) : option bytes :=
  match doc_tree Sc d v with Some e => Some (ser (prefer e)) | None => None end.
