(* Spec/TypeSem.v — what the RFC 8949 data model assigns to a well-formed item when it is read as a value of
   a built-in Rust type (the `Decode` impls of decode.rs / bytes.rs / data.rs), as a function of the type
   descriptor and of the encoding *tree* (Spec/Cbor.v) — never of bytes, positions or fuel, and sharing no
   code with the decoder model (only the two universes `ty` / `value` of Model/Types.v, as Spec/Denote.v does).

     spec_ty_lenient_at alloc t e : texpect  THE SPECIFICATION (spec_ty_lenient = … true: all features)
       TXOk v k : decoding e as t must return exactly v and consume exactly k bytes — the whole item
                  (len (ser e)) for every type except a bare `Tag` (consumed_ty);
       TXErr    : decoding e as t must return an error (e does not have t's shape, or the value is not
                  representable in t): "an error, never a different value";
       TXAny    : not constrained here (list below).
     Records are OPEN, as everywhere in minicbor's wire format: the types written with decode_fields! (Range*,
     SocketAddrV4/V6, Duration, SystemTime) are array-encoded records in the format documented for minicbor-derive,
     whose readers ignore elements at indices they do not know (forward compatibility, property C10: "fields unknown
     to the reader are ignored whatever their content"; decode.rs decode_fields!: `_ => d.skip()?`), and a unit
     variant ignores its body (Bound::Unbounded: `2 => d.skip()`; the derived decoder does the same, which is what
     makes "unit variant -> variant with optional fields" a compatible change).  So an array with MORE elements than
     the record has fields has the record's shape, and its value is that of the known fields.
     spec_ty_at alloc t e   is the CLOSED-record reading (surplus elements / a non-empty Unbounded payload are a shape
       mismatch: TXErr), kept for comparison: it is `if lenient_hit t e then TXErr else spec_ty_lenient_at alloc t e`,
       lenient_hit t e (end of this file) being the class of items on which the two readings differ.  A first version
       of this development took the closed reading for the specification and reported the difference as a candidate
       finding (F15); that was a false alarm of the specification (it demanded more than the property states, see
       DESIGN.md 11.4): the open reading is the documented behaviour.  Outside lenient_hit the readings coincide.

   Head widths never matter (no clause looks at a `width`), definite and indefinite arrays / maps are the same
   for every type that iterates (Vec-likes, [T; N], maps, ranges, Duration), and are told apart only where the
   impl compares the announced length (`()`, tuples, Result / IpAddr / SocketAddr / Bound need a definite head;
   rejecting the indefinite form is an error, which the property allows — as `str()` rejects chunked text).

   What the built-in types accept (read off the impls, decode.rs):
   * integers of each width: an unsigned / negative integer item of any head width iff representable (C05);
     `char`: an unsigned item that is a Unicode scalar value; `NonZero*`: as the integer, 0 is an error.
   * `String`, `&str`, `Box<str>`, `Cow<str>`, `Path*`: all go through `Decoder::str`: *definite* text only,
     validated as UTF-8; chunked text is an error (chunks are only concatenated by `str_iter`, C04_accessors).
     `ByteVec`, `&ByteSlice`, `ByteArray<N>` (exactly N bytes), `CStr*` (nul-terminated, no interior nul):
     definite byte strings only (`Decoder::bytes`).
   * `Option<T>`: `null` is None, everything else is T's reading (so `undefined` is an error unless T takes it,
     and Option<Option<T>> reads null as the outer None).
   * Vec / VecDeque / LinkedList / BinaryHeap / BTreeSet / HashSet: the list of elements, in document order;
     the set-like ones are compared as multisets / sets by the correspondence check (the canonical form the
     model already uses).  BTreeMap / HashMap: the list key, value, key, value … in document order; the map it
     denotes is obtained by inserting left to right, *later duplicates overwrite earlier ones* (canonicalised
     the same way on both sides of the correspondence check).
   * `[T; N]`: an array (definite or indefinite) of exactly N elements.
   * tuples: a *definite* array of exactly as many elements; `()` / PhantomData: the definite empty array.
   * Range* / SocketAddrV4/V6 / Duration / SystemTime (decode_fields!): an array (definite or indefinite) whose
     element i is field i; fewer elements than fields is an error; MORE elements: the surplus is skipped (any item)
     (closed reading spec_ty_at: TXErr).
   * Result / IpAddr / SocketAddr: the definite 2-array [variant index (u32), payload];
     Bound: [0|1, T] or [2, any item] (the payload is skipped; closed reading: [2, []] only).
   * `Tagged<N, T>`: tag N (any head width) around T's reading.  `Tag`: the tag number of a tagged item.
   * Duration: seconds + nanos / 10^9 must fit u64; SystemTime: additionally seconds <= i64::MAX.

   TXAny / TsAny (no constraint) — every occurrence:
   1. `f32` on an f16 item, `f64` on an f16 / f32 item: exactly the XAny arms of spec_acc AF32 / AF64
      (availability depends on feature `half`, the widened value belongs to C12).
   2. (open reading; outside lenient_hit the only skipped item is the empty array of Unbounded, which is
      skippable) an item that is *skipped* and is not `skippable`: skip validates text (utf8_ok, as spec_acc
      ASkip) and, without feature `alloc`, refuses an indefinite array/map below a definite one (noalloc_ok;
      C06_noalloc).  With alloc = true only utf8_ok.
   3. propagation: a container whose first non-value element (left to right) is TsAny is TsAny.

   Position not at the end of the item — every case: a bare `Tag` reads only the head of the tagged item
   (consumed_ty: head_len).  Below a container a bare `Tag` would leave the following readers inside the item;
   `whole_ty` (no bare Tag anywhere) marks the descriptors that consume the whole item, `tag_top` allows a
   bare `Tag` at the top only.  The theorems of Props/C04.v are stated for tag_top descriptors. *)
From MC Require Export Cbor Utf8 Acc Types.
Local Open Scope N_scope.

Inductive tsem (A : Type) := TsVal (a : A) | TsErr | TsAny.
Arguments TsVal {A} a. Arguments TsErr {A}. Arguments TsAny {A}.

Definition ts_map {A B} (g : A -> B) (s : tsem A) : tsem B :=
  match s with TsVal a => TsVal (g a) | TsErr => TsErr | TsAny => TsAny end.
Definition ts_bind {A B} (s : tsem A) (g : A -> tsem B) : tsem B :=
  match s with TsVal a => g a | TsErr => TsErr | TsAny => TsAny end.

(* ---- leaves ---- *)
(* the integer the item denotes (Spec/Acc.v int_value), if it lies in [lo, hi] *)
Definition ts_int (lo hi : Z) (e : enc) : tsem Z :=
  match int_value e with
  | Some z => if in_range lo hi z then TsVal z else TsErr
  | None => TsErr
  end.
Definition ts_uint (max : N) (e : enc) : tsem value :=
  ts_map (fun z => VNat (Z.to_N z)) (ts_int 0 (Z.of_N max) e).
Definition ts_sint (max : N) (e : enc) : tsem value :=
  ts_map VInt (ts_int (-1 - Z.of_N max) (Z.of_N max) e).
Definition ts_nonzero (s : tsem value) : tsem value :=
  ts_bind s (fun v => match v with
                      | VNat n => if n =? 0 then TsErr else TsVal v
                      | VInt z => if (z =? 0)%Z then TsErr else TsVal v
                      | _ => TsVal v
                      end).

(* b = x ++ [0] with no 0 in x (CStr::from_bytes_with_nul) *)
Fixpoint strip_nul (b : bytes) : option bytes :=
  match b with
  | [] => None
  | z :: r =>
      match r with
      | [] => if z =? 0 then Some [] else None
      | _ :: _ => if z =? 0 then None else option_map (cons z) (strip_nul r)
      end
  end.

(* an item the decoder has to *skip* (Decoder::skip): text must be UTF-8; without `alloc` no indefinite
   array/map below a definite one *)
Definition skippable (alloc : bool) (e : enc) : bool := utf8_ok e && (alloc || noalloc_ok e).

Definition is_null_item (e : enc) : bool := match e with ESimple n => n =? 22 | _ => false end.

(* the elements of an array item / the alternating keys and values of a map item *)
Definition array_elems (e : enc) : option (list enc) :=
  match e with EArray _ es | EArrayI es => Some es | _ => None end.
Definition def_array_elems (e : enc) : option (list enc) :=
  match e with EArray _ es => Some es | _ => None end.
Definition map_elems (e : enc) : option (list enc) :=
  match e with EMap _ es | EMapI es => Some es | _ => None end.

(* ---- element lists: left to right, the first element that is not a value decides ---- *)
Fixpoint ts_all {X} (f : X -> tsem value) (es : list X) : tsem (list value) :=
  match es with
  | [] => TsVal []
  | e :: es' => ts_bind (f e) (fun v => ts_map (cons v) (ts_all f es'))
  end.

(* keys and values alternating (wf guarantees an even number of entries) *)
Fixpoint ts_alt (fk fv : enc -> tsem value) (es : list enc) : tsem (list value) :=
  match es with
  | k :: v :: es' => ts_bind (fk k) (fun a => ts_bind (fv v) (fun b => ts_map (fun l => a :: b :: l) (ts_alt fk fv es')))
  | _ => TsVal []
  end.

(* one reader per element, same number of each (tuples) *)
Fixpoint ts_zip (fs : list (enc -> tsem value)) (es : list enc) : tsem (list value) :=
  match fs, es with
  | [], [] => TsVal []
  | f :: fs', e :: es' => ts_bind (f e) (fun v => ts_map (cons v) (ts_zip fs' es'))
  | _, _ => TsErr
  end.

Fixpoint ts_skip_all (alloc : bool) (es : list enc) : tsem (list value) :=
  match es with
  | [] => TsVal []
  | e :: es' => if skippable alloc e then ts_skip_all alloc es' else TsAny
  end.

(* decode_fields!: element i is field i, a missing field is an error, surplus elements are skipped *)
Fixpoint ts_fields (alloc : bool) (fs : list (enc -> tsem value)) (es : list enc) : tsem (list value) :=
  match fs, es with
  | [], _ => ts_skip_all alloc es
  | _ :: _, [] => TsErr
  | f :: fs', e :: es' => ts_bind (f e) (fun v => ts_map (cons v) (ts_fields alloc fs' es'))
  end.
Definition ts_fields_of (alloc : bool) (fs : list (enc -> tsem value)) (e : enc) : tsem (list value) :=
  match array_elems e with Some es => ts_fields alloc fs es | None => TsErr end.

(* the variant index of [index, payload]: an unsigned item that fits u32 *)
Definition ts_index (e : enc) : option N :=
  match e with EUInt _ n => if n <=? 4294967295 then Some n else None | _ => None end.

(* Duration::new(secs + nanos / 10^9, nanos % 10^9), the carry checked *)
Definition ts_duration (alloc : bool) (e : enc) : tsem value :=
  ts_bind (ts_fields_of alloc [ts_uint 18446744073709551615; ts_uint 4294967295] e)
    (fun l => match l with
              | [VNat s; VNat ns] =>
                  if s + ns / 1000000000 <=? 18446744073709551615
                  then TsVal (VList [VNat (s + ns / 1000000000); VNat (ns mod 1000000000)]) else TsErr
              | _ => TsErr
              end).

(* ---- the built-in types ---- *)
Fixpoint sem_ty (alloc : bool) (t : ty) (e : enc) {struct t} : tsem value :=
  match t with
  | TyU w => ts_uint (umax w) e
  | TyI w => ts_sint (imax w) e
  | TyInt => ts_map VInt (ts_int (-18446744073709551616) 18446744073709551615 e)
  | TyBool => match e with
              | ESimple n => if n =? 20 then TsVal (VBool false) else if n =? 21 then TsVal (VBool true) else TsErr
              | _ => TsErr
              end
  | TyChar => match e with EUInt _ n => if is_scalar n then TsVal (VNat n) else TsErr | _ => TsErr end
  | TyF32 => match e with EF32 b => TsVal (VFloat b) | EF16 _ => TsAny | _ => TsErr end
  | TyF64 => match e with EF64 b => TsVal (VFloat b) | EF16 _ | EF32 _ => TsAny | _ => TsErr end
  | TyNZU w => ts_nonzero (ts_uint (umax w) e)
  | TyNZI w => ts_nonzero (ts_sint (imax w) e)
  | TyStr => match e with EText _ b => if utf8_valid b then TsVal (VBlob b) else TsErr | _ => TsErr end
  | TyBytes => match e with EBytes _ b => TsVal (VBlob b) | _ => TsErr end
  | TyByteArr n => match e with EBytes _ b => if len b =? n then TsVal (VBlob b) else TsErr | _ => TsErr end
  | TyCStr => match e with
              | EBytes _ b => match strip_nul b with Some x => TsVal (VBlob x) | None => TsErr end
              | _ => TsErr
              end
  | TyUnit => match e with EArray _ [] => TsVal VUnit | _ => TsErr end
  | TyOpt t' => if is_null_item e then TsVal VNone else ts_map VSome (sem_ty alloc t' e)
  | TySeq t' => match array_elems e with
                | Some es => ts_map VList (ts_all (sem_ty alloc t') es)
                | None => TsErr
                end
  | TyArr n t' => match array_elems e with
                  | Some es => ts_bind (ts_all (sem_ty alloc t') es)
                                 (fun l => if len l =? n then TsVal (VList l) else TsErr)
                  | None => TsErr
                  end
  | TyMap tk tv => match map_elems e with
                   | Some es => ts_map VList (ts_alt (sem_ty alloc tk) (sem_ty alloc tv) es)
                   | None => TsErr
                   end
  | TyTuple ts => match def_array_elems e with
                  | Some es => if len es =? len ts then ts_map VList (ts_zip (map (sem_ty alloc) ts) es) else TsErr
                  | None => TsErr
                  end
  | TyFields ts => ts_map VList (ts_fields_of alloc (map (sem_ty alloc) ts) e)
  | TyEnum vs => match def_array_elems e with
                 | Some [i; x] =>
                     match ts_index i with
                     | Some n => if n <? len vs
                                 then match nth_error (map (sem_ty alloc) vs) (N.to_nat n) with
                                      | Some f => ts_map (VVar n) (f x)
                                      | None => TsErr
                                      end
                                 else TsErr
                     | None => TsErr
                     end
                 | _ => TsErr
                 end
  | TyBound t' => match def_array_elems e with
                  | Some [i; x] =>
                      match ts_index i with
                      | Some n => if n <? 2 then ts_map (VVar n) (sem_ty alloc t' x)
                                  else if n =? 2 then (if skippable alloc x then TsVal (VVar 2 VUnit) else TsAny)
                                  else TsErr
                      | None => TsErr
                      end
                  | _ => TsErr
                  end
  | TyTag => match e with ETag _ n _ => TsVal (VNat n) | _ => TsErr end
  | TyTagged n t' => match e with ETag _ g x => if g =? n then sem_ty alloc t' x else TsErr | _ => TsErr end
  | TyDuration => ts_duration alloc e
  | TySystemTime => ts_bind (ts_duration alloc e)
                      (fun d => match d with
                                | VList [VNat s; _] => if s <=? 9223372036854775807 then TsVal (VVar 0 d) else TsErr
                                | _ => TsErr
                                end)
  end.

(* ---- how far the position moves on success ---- *)
Definition consumed_ty (t : ty) (e : enc) : N :=
  match t, e with
  | TyTag, ETag w _ _ => head_len w          (* Decoder::tag reads the head only *)
  | _, _ => len (ser e)
  end.

(* descriptors that consume the whole item: no bare Tag anywhere *)
Fixpoint whole_ty (t : ty) : bool :=
  match t with
  | TyTag => false
  | TyOpt t' | TySeq t' | TyArr _ t' | TyBound t' | TyTagged _ t' => whole_ty t'
  | TyMap k v => whole_ty k && whole_ty v
  | TyTuple ts | TyFields ts | TyEnum ts => forallb whole_ty ts
  | _ => true
  end.
(* ... or a bare Tag at the top only *)
Definition tag_top (t : ty) : bool := match t with TyTag => true | _ => whole_ty t end.

Inductive texpect := TXOk (v : value) (consumed : N) | TXErr | TXAny.

(* THE SPECIFICATION (open records: surplus elements of decode_fields! records and the body of Bound::Unbounded are skipped) *)
Definition spec_ty_lenient_at (alloc : bool) (t : ty) (e : enc) : texpect :=
  match sem_ty alloc t e with
  | TsVal v => TXOk v (consumed_ty t e)
  | TsErr => TXErr
  | TsAny => TXAny
  end.

(* ---- the class on which the open and the closed record reading differ: somewhere in the item, read along the type,
   * a decode_fields! type (Range*, SocketAddrV4/V6, Duration, SystemTime) meets an array with MORE elements than
     it has fields (the surplus is skipped and ignored), or
   * Bound meets [2, x] where x is not the empty array the encoder writes for Unbounded (x is skipped and ignored).
   The closed reading calls that a shape mismatch; the open reading (the specification, and the implementation) returns
   the value of the known part.  lenient_hit is a plain parallel walk over descriptor and tree. *)
Definition is_empty_array (e : enc) : bool :=
  match e with EArray _ [] | EArrayI [] => true | _ => false end.

Fixpoint hit_alt (fk fv : enc -> bool) (es : list enc) : bool :=
  match es with k :: v :: es' => fk k || fv v || hit_alt fk fv es' | _ => false end.
Fixpoint hit_zip (fs : list (enc -> bool)) (es : list enc) : bool :=
  match fs, es with f :: fs', e :: es' => f e || hit_zip fs' es' | _, _ => false end.

Fixpoint lenient_hit (t : ty) (e : enc) {struct t} : bool :=
  match t with
  | TyOpt t' => lenient_hit t' e
  | TySeq t' | TyArr _ t' => match array_elems e with Some es => existsb (lenient_hit t') es | None => false end
  | TyMap tk tv => match map_elems e with Some es => hit_alt (lenient_hit tk) (lenient_hit tv) es | None => false end
  | TyTuple ts => match array_elems e with Some es => hit_zip (map lenient_hit ts) es | None => false end
  | TyFields ts => match array_elems e with
                   | Some es => (len ts <? len es) || hit_zip (map lenient_hit ts) es
                   | None => false
                   end
  | TyEnum vs => match array_elems e with
                 | Some [i; x] => match ts_index i with
                                  | Some n => if n <? len vs
                                              then match nth_error (map lenient_hit vs) (N.to_nat n) with
                                                   | Some f => f x
                                                   | None => false
                                                   end
                                              else false
                                  | None => false
                                  end
                 | _ => false
                 end
  | TyBound t' => match array_elems e with
                  | Some [i; x] => match ts_index i with
                                   | Some n => if n <? 2 then lenient_hit t' x
                                               else if n =? 2 then negb (is_empty_array x) else false
                                   | None => false
                                   end
                  | _ => false
                  end
  | TyTagged _ t' => match e with ETag _ _ x => lenient_hit t' x | _ => false end
  | TyDuration | TySystemTime => match array_elems e with Some es => 2 <? len es | None => false end
  | _ => false
  end.

(* the closed-record reading, for comparison: an item in the class is a shape mismatch *)
Definition spec_ty_at (alloc : bool) (t : ty) (e : enc) : texpect :=
  if lenient_hit t e then TXErr else spec_ty_lenient_at alloc t e.

(* all features (what the correspondence check runs) *)
Definition spec_ty : ty -> enc -> texpect := spec_ty_at true.
Definition spec_ty_lenient : ty -> enc -> texpect := spec_ty_lenient_at true.

(* descriptors on which the lenient class is empty: no decode_fields! type and no Bound anywhere *)
Fixpoint strict_ty (t : ty) : bool :=
  match t with
  | TyFields _ | TyBound _ | TyDuration | TySystemTime => false
  | TyOpt t' | TySeq t' | TyArr _ t' | TyTagged _ t' => strict_ty t'
  | TyMap k v => strict_ty k && strict_ty v
  | TyTuple ts | TyEnum ts => forallb strict_ty ts
  | _ => true
  end.
