(* Spec/Toks.v — specification side of C11: the token sequence a well-formed item denotes, the value
   each token carries, and the side conditions.  Functions on encoding trees; no decoder code here
   (the token *type* and the IEEE half<->single conversions are shared vocabulary). *)
From MC Require Export Cbor Utf8 Half Token.
Local Open Scope N_scope.

(* the unsigned token type is chosen by the head width *)
Definition uint_tok (w : width) (n : N) : token :=
  match w with W0 | W1 => TkU8 n | W2 => TkU16 n | W4 => TkU32 n | W8 => TkU64 n end.

(* the negative token type is the narrowest signed type that holds -1-n at this head width *)
Definition nint_tok (w : width) (n : N) : token :=
  let v := (-1 - Z.of_N n)%Z in
  match w with
  | W0 => TkI8 v
  | W1 => if n <? 128 then TkI8 v else TkI16 v
  | W2 => if n <? 32768 then TkI16 v else TkI32 v
  | W4 => if n <? 2147483648 then TkI32 v else TkI64 v
  | W8 => if n <? 9223372036854775808 then TkI64 v else TkInt (true, n)
  end.

Definition simple_tok (n : N) : token :=
  if n =? 20 then TkBool false else if n =? 21 then TkBool true
  else if n =? 22 then TkNull else if n =? 23 then TkUndefined else TkSimple n.

(* pre-order walk: one token per head, one Break per indefinite container *)
Fixpoint toks (e : enc) : list token :=
  match e with
  | EUInt w n => [uint_tok w n]
  | ENInt w n => [nint_tok w n]
  | EBytes _ b => [TkBytes b]
  | EBytesI cs => TkBeginBytes :: map (fun c => TkBytes (snd c)) cs ++ [TkBreak]
  | EText _ b => [TkString b]
  | ETextI cs => TkBeginString :: map (fun c => TkString (snd c)) cs ++ [TkBreak]
  | EArray _ es => TkArray (len es) :: flat_map toks es
  | EArrayI es => TkBeginArray :: flat_map toks es ++ [TkBreak]
  | EMap _ es => TkMap (len es / 2) :: flat_map toks es
  | EMapI es => TkBeginMap :: flat_map toks es ++ [TkBreak]
  | ETag _ t e => TkTag t :: toks e
  | ESimple n => [simple_tok n]
  | EF16 b => [TkF16 (f16_to_f32 b)]
  | EF32 b => [TkF32 b]
  | EF64 b => [TkF64 b]
  end.

(* text must be valid UTF-8 — chunk by chunk, since every chunk is read with Decoder::str *)
Fixpoint utf8_ok (e : enc) : bool :=
  match e with
  | EText _ b => utf8_valid b
  | ETextI cs => forallb (fun c => utf8_valid (snd c)) cs
  | EArray _ es | EArrayI es | EMap _ es | EMapI es => forallb utf8_ok es
  | ETag _ _ e => utf8_ok e
  | _ => true
  end.

(* the half patterns that do not survive f16 -> f32 -> f16: exactly the signalling NaNs
   (exponent all ones, mantissa non-zero, quiet bit 0x0200 clear); Proofs/TokenFacts.v snan16_exact *)
Definition snan16 (b : N) : bool := is_nan16 b && (N.land b 0x0200 =? 0).

Fixpoint no_snan16 (e : enc) : bool :=
  match e with
  | EF16 b => negb (snan16 b)
  | EArray _ es | EArrayI es | EMap _ es | EMapI es => forallb no_snan16 es
  | ETag _ _ e => no_snan16 e
  | _ => true
  end.

(* ---- the value a token carries (integer tokens by numeric value, whatever their Rust type) ---- *)
Inductive tval :=
| TVInt (z : Z) | TVFloat (w : N) (bits : N) | VBytes' (b : bytes) | VText (b : bytes)
| VArrayH (n : N) | VMapH (n : N) | VTagH (t : N) | VSimple' (n : N)
| VBreak | VBeginBytes | VBeginText | VBeginArray | VBeginMap.

Definition tok_val (t : token) : tval :=
  match t with
  | TkBool b => VSimple' (if b then 21 else 20)
  | TkU8 n | TkU16 n | TkU32 n | TkU64 n => TVInt (Z.of_N n)
  | TkI8 z | TkI16 z | TkI32 z | TkI64 z => TVInt z
  | TkInt i => TVInt (int_val i)
  | TkF16 x => TVFloat 16 x      (* the f32 image of the half; exact (C12) *)
  | TkF32 x => TVFloat 32 x
  | TkF64 x => TVFloat 64 x
  | TkBytes b => VBytes' b
  | TkString b => VText b
  | TkArray n => VArrayH n | TkMap n => VMapH n | TkTag n => VTagH n
  | TkSimple n => VSimple' n
  | TkNull => VSimple' 22 | TkUndefined => VSimple' 23
  | TkBreak => VBreak
  | TkBeginBytes => VBeginBytes | TkBeginString => VBeginText
  | TkBeginArray => VBeginArray | TkBeginMap => VBeginMap
  end.

(* the data-model value of every head of an item, in serialisation order — no widths involved *)
Fixpoint head_vals (e : enc) : list tval :=
  match e with
  | EUInt _ n => [TVInt (Z.of_N n)]
  | ENInt _ n => [TVInt (-1 - Z.of_N n)]
  | EBytes _ b => [VBytes' b]
  | EBytesI cs => VBeginBytes :: map (fun c => VBytes' (snd c)) cs ++ [VBreak]
  | EText _ b => [VText b]
  | ETextI cs => VBeginText :: map (fun c => VText (snd c)) cs ++ [VBreak]
  | EArray _ es => VArrayH (len es) :: flat_map head_vals es
  | EArrayI es => VBeginArray :: flat_map head_vals es ++ [VBreak]
  | EMap _ es => VMapH (len es / 2) :: flat_map head_vals es
  | EMapI es => VBeginMap :: flat_map head_vals es ++ [VBreak]
  | ETag _ t e => VTagH t :: head_vals e
  | ESimple n => [VSimple' n]
  | EF16 b => [TVFloat 16 (f16_to_f32 b)]
  | EF32 b => [TVFloat 32 b]
  | EF64 b => [TVFloat 64 b]
  end.

Definition zr (lo hi x : Z) : bool := ((lo <=? x) && (x <=? hi))%Z.

(* the payloads the Rust variant types allow, plus what Encode needs to round-trip by value:
   F16 payload exactly representable in half precision.  (Simple(24..=31) is allowed: it is written as
   f8 x and the tokenizer reads that back as the same token, although those bytes are not a well-formed
   RFC 8949 item — finding F2b, stated in Props/C03.v.) *)
Definition token_ok (t : token) : bool :=
  match t with
  | TkU8 n => n <? 256 | TkU16 n => n <? 65536 | TkU32 n => n <? 4294967296
  | TkU64 n => n <? 18446744073709551616
  | TkI8 z => zr (-128) 127 z | TkI16 z => zr (-32768) 32767 z
  | TkI32 z => zr (-2147483648) 2147483647 z
  | TkI64 z => zr (-9223372036854775808) 9223372036854775807 z
  | TkInt i => snd i <? 18446744073709551616
  | TkF16 x => (x <? 4294967296) && (f16_to_f32 (f32_to_f16 x) =? x)
  | TkF32 x => x <? 4294967296
  | TkF64 x => x <? 18446744073709551616
  | TkBytes b => bytes_ok b && (len b <? 18446744073709551616)
  | TkString b => bytes_ok b && utf8_valid b && (len b <? 18446744073709551616)
  | TkArray n | TkMap n | TkTag n => n <? 18446744073709551616
  | TkSimple n => n <? 256
  | _ => true
  end.
Definition tokens_ok (ts : list token) : bool := forallb token_ok ts.
