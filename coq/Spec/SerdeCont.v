(* Spec/SerdeCont.v — the Content tree serde's ContentVisitor builds when the bridge's deserialize_any reads the
   serialisation of a call tree (cont_of: integers in the narrowest type datatype() reports, unit as an empty
   sequence, char as an integer, Some / newtype struct transparent, text borrowed), and the call trees a
   keep-everything visitor can give back (any_canon).  Definitions only. *)
From MC Require Export SerdeDoc.
Local Open Scope N_scope.

(* ------------------------------------------------------------------ what deserialize_any reports *)
(* datatype() on a shortest-form head: u8 up to 255 (one-byte argument included), … *)
Definition uw_of (n : N) : iw :=
  if n <? 256 then B8 else if n <? 65536 then B16 else if n <? 4294967296 then B32 else B64.
(* … and for major 1 the sign bit of the argument decides (decoder.rs type_of: 0x38 + peek) *)
Definition nw_of (n : N) : iw :=
  if n <? 128 then B8 else if n <? 32768 then B16 else if n <? 2147483648 then B32 else B64.

Definition cont_int (z : Z) : content :=
  if (0 <=? z)%Z then CU (uw_of (Z.to_N z)) (Z.to_N z) else CI (nw_of (Z.to_N (-1 - z))) z.

Fixpoint cont_of (v : sval) : content :=
  let fields := fix go (fs : list (bytes * sval)) : list content :=
    match fs with [] => [] | (k, x) :: r => CStr false k :: cont_of x :: go r end in
  match v with
  | SBool b => CBool b
  | SI _ z => cont_int z
  | SU _ n => CU (uw_of n) n
  | SF32 b => CF32 b
  | SF64 b => CF64 b
  | SChar c => CU (uw_of c) c
  | SStr b | SCollectStr b => CStr false b
  | SBytes b => CBytes false b
  | SNone => CNone
  | SSome x | SNewtypeStruct x => cont_of x
  | SUnit | SUnitStruct => CSeq []
  | SUnitVariant _ name => CStr false name
  | SNewtypeVariant _ name x => CMap [CStr false name; cont_of x]
  | SSeq _ l | STuple _ l | STupleStruct _ l => CSeq (map cont_of l)
  | STupleVariant _ name _ l => CMap [CStr false name; CSeq (map cont_of l)]
  | SMap _ kvs => CMap (map cont_of kvs)
  | SStruct _ fs => CMap (fields fs)
  | SStructVariant _ name _ fs => CMap [CStr false name; CMap (fields fs)]
  end.

(* the call trees a keep-everything visitor (ShAny) can produce from the bridge: the canonical forms *)
Fixpoint any_canon (v : sval) : bool :=
  match v with
  | SBool _ | SNone => true
  | SU w n => iw_eqb w (uw_of n) && (n <=? umax w)
  | SI w z => (z <? 0)%Z && iw_eqb w (nw_of (Z.to_N (-1 - z))) && zin w z
  | SF32 b => b <? 4294967296
  | SF64 b => b <? two64
  | SStr b => str_ok b
  | SBytes b => bytes_ok b && (len b <? two64)
  | SSeq (Some n) l => (n =? len l) && (n <? two64) && forallb any_canon l
  | SMap (Some n) kvs => N.even (len kvs) && (n =? len kvs / 2) && (n <? two64) && forallb any_canon kvs
  | _ => false
  end.

