(* Spec/Denote.v — the data-model item (RFC 8949 section 2) a value of a built-in type stands for,
   as documented for the built-in Encode impls: integers as integers, bool / None as simple values,
   strings as text, byte newtypes (and CStr with its nul) as byte strings, sequences / arrays / tuples /
   ranges / Duration as arrays, maps as maps, Result / IpAddr / Bound as [variant, payload], Tagged as a tag.
   Plain recursion over the descriptor; it uses the type and value universes of Model/Types.v and nothing
   of the encoder.  No proofs here (Proofs/TypesItem.v). *)
From MC Require Export Cbor Types.
Local Open Scope N_scope.

Definition int_item (z : Z) : item := if (0 <=? z)%Z then IUInt (Z.to_N z) else INInt (Z.to_N (-1 - z)).

Fixpoint den_all (f : value -> option item) (vs : list value) : option (list item) :=
  match vs with
  | [] => Some []
  | v :: vs' => match f v, den_all f vs' with Some i, Some r => Some (i :: r) | _, _ => None end
  end.

Fixpoint den_zip (fs : list (value -> option item)) (vs : list value) : option (list item) :=
  match fs, vs with
  | [], [] => Some []
  | f :: fs', v :: vs' => match f v, den_zip fs' vs' with Some i, Some r => Some (i :: r) | _, _ => None end
  | _, _ => None
  end.

(* keys and values alternating; an odd number of entries has no denotation *)
Fixpoint den_alt (fk fv : value -> option item) (vs : list value) : option (list item) :=
  match vs with
  | [] => Some []
  | k :: v :: vs' =>
      match fk k, fv v, den_alt fk fv vs' with Some a, Some b, Some r => Some (a :: b :: r) | _, _, _ => None end
  | _ => None
  end.

Definition pair_item (i : N) (p : option item) : option item :=
  match p with Some x => Some (IArray [IUInt i; x]) | None => None end.

Fixpoint denote (t : ty) (v : value) {struct t} : option item :=
  match t, v with
  | TyU _, VNat n | TyNZU _, VNat n | TyChar, VNat n => Some (IUInt n)
  | TyI _, VInt z | TyNZI _, VInt z | TyInt, VInt z => Some (int_item z)
  | TyBool, VBool b => Some (ISimple (if b then 21 else 20))
  | TyF32, VFloat b => Some (IF32 b)
  | TyF64, VFloat b => Some (IF64 b)
  | TyStr, VBlob b => Some (IText b)
  | TyBytes, VBlob b => Some (IBytes b)
  | TyByteArr n, VBlob b => if len b =? n then Some (IBytes b) else None
  | TyCStr, VBlob b => Some (IBytes (b ++ [0]))
  | TyUnit, VUnit => Some (IArray [])
  | TyOpt _, VNone => Some (ISimple 22)
  | TyOpt t', VSome v' => denote t' v'
  | TySeq t', VList l => option_map IArray (den_all (denote t') l)
  | TyArr n t', VList l => if len l =? n then option_map IArray (den_all (denote t') l) else None
  | TyMap tk tv, VList l => option_map IMap (den_alt (denote tk) (denote tv) l)
  | TyTuple ts, VList l => option_map IArray (den_zip (map denote ts) l)
  | TyFields ts, VList l => option_map IArray (den_zip (map denote ts) l)
  | TyEnum vs, VVar i v' =>
      match nth_error (map denote vs) (N.to_nat i) with Some f => pair_item i (f v') | None => None end
  | TyBound t', VVar i v' =>
      if i <? 2 then pair_item i (denote t' v')
      else if i =? 2 then match v' with VUnit => Some (IArray [IUInt 2; IArray []]) | _ => None end
      else None
  | TyTag, _ => None                           (* a bare tag header is not a data item *)
  | TyTagged n t', v' => option_map (ITag n) (denote t' v')
  | TyDuration, VList [VNat s; VNat ns] => Some (IArray [IUInt s; IUInt ns])
  | TySystemTime, VVar i (VList [VNat s; VNat ns]) =>      (* the duration since the epoch; none before it *)
      if i =? 0 then Some (IArray [IUInt s; IUInt ns]) else None
  | _, _ => None
  end.

(* descriptors whose values are whole data items: no bare Tag anywhere *)
Fixpoint no_bare_tag (t : ty) : bool :=
  match t with
  | TyTag => false
  | TyOpt t' | TySeq t' | TyArr _ t' | TyBound t' | TyTagged _ t' => no_bare_tag t'
  | TyMap k v => no_bare_tag k && no_bare_tag v
  | TyTuple ts | TyFields ts | TyEnum ts => forallb no_bare_tag ts
  | _ => true
  end.
