(* Spec/Cbor.v — RFC 8949 as syntax. Encoding trees with explicit head widths, indefinite forms and
   chunks; serialisation; well-formedness; preferred serialisation; the data model (item) and the
   reference encoder enc_pref; a fuelled reference parser.  No proofs here (Proofs/CborFacts.v).
   This file is the *specification* side: it shares no code with Model/. *)
From MC Require Export Bytes.

Inductive width := W0 | W1 | W2 | W4 | W8.   (* argument in the initial byte / 1 / 2 / 4 / 8 bytes *)

Definition fits (w : width) (n : N) : bool :=
  match w with
  | W0 => n <? 24 | W1 => n <? 256 | W2 => n <? 65536
  | W4 => n <? 4294967296 | W8 => n <? 18446744073709551616
  end.

Definition min_width (n : N) : width :=
  if n <? 24 then W0 else if n <? 256 then W1 else if n <? 65536 then W2
  else if n <? 4294967296 then W4 else W8.

Definition width_eqb (a b : width) : bool :=
  match a, b with W0, W0 | W1, W1 | W2, W2 | W4, W4 | W8, W8 => true | _, _ => false end.

(* RFC 8949 section 3: initial byte = major type * 32 + additional information, then the argument *)
Definition head (mt : N) (w : width) (n : N) : bytes :=
  match w with
  | W0 => [mt * 32 + n]
  | W1 => [mt * 32 + 24; n]
  | W2 => (mt * 32 + 25) :: be 2 n
  | W4 => (mt * 32 + 26) :: be 4 n
  | W8 => (mt * 32 + 27) :: be 8 n
  end.

Definition chunk_t := (width * bytes)%type.

Inductive enc :=
| EUInt (w : width) (n : N)                 (* major 0: value n *)
| ENInt (w : width) (n : N)                 (* major 1: value -1-n *)
| EBytes (w : width) (b : bytes)
| EBytesI (cs : list chunk_t)               (* 5f chunk* ff *)
| EText (w : width) (b : bytes)
| ETextI (cs : list chunk_t)                (* 7f chunk* ff *)
| EArray (w : width) (es : list enc)
| EArrayI (es : list enc)                   (* 9f item* ff *)
| EMap (w : width) (es : list enc)          (* keys and values alternating; |es| even *)
| EMapI (es : list enc)                     (* bf (key value)* ff *)
| ETag (w : width) (t : N) (e : enc)
| ESimple (n : N)                           (* 0..23 in the initial byte (20..23 = false true null undefined), 32..255 as f8 n *)
| EF16 (bits : N) | EF32 (bits : N) | EF64 (bits : N).

Definition ser_chunk (mt : N) (c : chunk_t) : bytes := head mt (fst c) (len (snd c)) ++ snd c.

Fixpoint ser (e : enc) : bytes :=
  match e with
  | EUInt w n => head 0 w n
  | ENInt w n => head 1 w n
  | EBytes w b => head 2 w (len b) ++ b
  | EBytesI cs => 95 :: flat_map (ser_chunk 2) cs ++ [255]
  | EText w b => head 3 w (len b) ++ b
  | ETextI cs => 127 :: flat_map (ser_chunk 3) cs ++ [255]
  | EArray w es => head 4 w (len es) ++ flat_map ser es
  | EArrayI es => 159 :: flat_map ser es ++ [255]
  | EMap w es => head 5 w (len es / 2) ++ flat_map ser es
  | EMapI es => 191 :: flat_map ser es ++ [255]
  | ETag w t e => head 6 w t ++ ser e
  | ESimple n => if n <? 24 then [224 + n] else [248; n]
  | EF16 b => 249 :: be 2 b
  | EF32 b => 250 :: be 4 b
  | EF64 b => 251 :: be 8 b
  end.

Definition wf_chunk (c : chunk_t) : bool := fits (fst c) (len (snd c)) && bytes_ok (snd c).

(* RFC 8949 well-formedness (Appendix C), with UTF-8 validity of text left to Spec/Utf8.v *)
Fixpoint wf (e : enc) : bool :=
  match e with
  | EUInt w n | ENInt w n => fits w n
  | EBytes w b | EText w b => fits w (len b) && bytes_ok b
  | EBytesI cs | ETextI cs => forallb wf_chunk cs
  | EArray w es => fits w (len es) && forallb wf es
  | EArrayI es => forallb wf es
  | EMap w es => N.even (len es) && fits w (len es / 2) && forallb wf es
  | EMapI es => N.even (len es) && forallb wf es
  | ETag w t e => fits w t && wf e
  | ESimple n => (n <? 24) || ((32 <=? n) && (n <? 256))
  | EF16 b => b <? 65536
  | EF32 b => b <? 4294967296
  | EF64 b => b <? 18446744073709551616
  end.

(* every head is the shortest one and nothing is indefinite (RFC 8949 section 4.1/4.2.1, floats aside) *)
Fixpoint pref (e : enc) : bool :=
  match e with
  | EUInt w n | ENInt w n => width_eqb w (min_width n)
  | EBytes w b | EText w b => width_eqb w (min_width (len b))
  | EBytesI _ | ETextI _ | EArrayI _ | EMapI _ => false
  | EArray w es => width_eqb w (min_width (len es)) && forallb pref es
  | EMap w es => width_eqb w (min_width (len es / 2)) && forallb pref es
  | ETag w t e => width_eqb w (min_width t) && pref e
  | ESimple _ | EF16 _ | EF32 _ | EF64 _ => true
  end.

(* every head is the shortest one; indefinite structure kept *)
Definition prefer_chunk (c : chunk_t) : chunk_t := (min_width (len (snd c)), snd c).
Fixpoint prefer (e : enc) : enc :=
  match e with
  | EUInt _ n => EUInt (min_width n) n
  | ENInt _ n => ENInt (min_width n) n
  | EBytes _ b => EBytes (min_width (len b)) b
  | EBytesI cs => EBytesI (map prefer_chunk cs)
  | EText _ b => EText (min_width (len b)) b
  | ETextI cs => ETextI (map prefer_chunk cs)
  | EArray _ es => EArray (min_width (len es)) (map prefer es)
  | EArrayI es => EArrayI (map prefer es)
  | EMap _ es => EMap (min_width (len es / 2)) (map prefer es)
  | EMapI es => EMapI (map prefer es)
  | ETag _ t e => ETag (min_width t) t (prefer e)
  | ESimple n => ESimple n
  | EF16 b => EF16 b | EF32 b => EF32 b | EF64 b => EF64 b
  end.

Fixpoint size (e : enc) : nat :=
  match e with
  | EArray _ es | EArrayI es | EMap _ es | EMapI es => S (fold_right (fun e a => size e + a)%nat 0%nat es)
  | ETag _ _ e => S (size e)
  | _ => 1
  end.

(* ---- the data model: widths erased, chunks concatenated, definiteness erased ---- *)
Inductive item :=
| IUInt (n : N) | INInt (n : N) | IBytes (b : bytes) | IText (b : bytes)
| IArray (l : list item) | IMap (l : list item) | ITag (t : N) (i : item)
| ISimple (n : N) | IF16 (b : N) | IF32 (b : N) | IF64 (b : N).

Fixpoint val_of (e : enc) : item :=
  match e with
  | EUInt _ n => IUInt n
  | ENInt _ n => INInt n
  | EBytes _ b => IBytes b
  | EBytesI cs => IBytes (flat_map snd cs)
  | EText _ b => IText b
  | ETextI cs => IText (flat_map snd cs)
  | EArray _ es | EArrayI es => IArray (map val_of es)
  | EMap _ es | EMapI es => IMap (map val_of es)
  | ETag _ t e => ITag t (val_of e)
  | ESimple n => ISimple n
  | EF16 b => IF16 b | EF32 b => IF32 b | EF64 b => IF64 b
  end.

(* the reference encoder: RFC 8949 section 4.1 preferred serialisation, definite lengths;
   the minimal head is chosen by one generic rule (min_width), not by per-type tables *)
Definition phead (mt n : N) : bytes := head mt (min_width n) n.

Fixpoint enc_pref (i : item) : bytes :=
  match i with
  | IUInt n => phead 0 n
  | INInt n => phead 1 n
  | IBytes b => phead 2 (len b) ++ b
  | IText b => phead 3 (len b) ++ b
  | IArray l => phead 4 (len l) ++ flat_map enc_pref l
  | IMap l => phead 5 (len l / 2) ++ flat_map enc_pref l
  | ITag t i => phead 6 t ++ enc_pref i
  | ISimple n => if n <? 24 then [224 + n] else [248; n]
  | IF16 b => 249 :: be 2 b
  | IF32 b => 250 :: be 4 b
  | IF64 b => 251 :: be 8 b
  end.

(* ---- reference parser (fuelled; fuel >= size of the tree suffices) ---- *)
Definition parser := bytes -> option (enc * bytes).

Definition read_arg (ai : N) (r : bytes) : option (width * N * bytes) :=
  if ai <? 24 then Some (W0, ai, r)
  else if ai =? 24 then match take r 1 with Some (a, r') => Some (W1, of_be a, r') | None => None end
  else if ai =? 25 then match take r 2 with Some (a, r') => Some (W2, of_be a, r') | None => None end
  else if ai =? 26 then match take r 4 with Some (a, r') => Some (W4, of_be a, r') | None => None end
  else if ai =? 27 then match take r 8 with Some (a, r') => Some (W8, of_be a, r') | None => None end
  else None.

Fixpoint parse_n (p : parser) (k : N) (fuel : nat) (bs : bytes) (acc : list enc) : option (list enc * bytes) :=
  if k =? 0 then Some (rev acc, bs)
  else match fuel with
       | O => None
       | S fuel => match p bs with
                   | Some (e, r) => parse_n p (N.pred k) fuel r (e :: acc)
                   | None => None
                   end
       end.

Definition starts (b : N) (bs : bytes) : bool := match bs with x :: _ => x =? b | [] => false end.

Fixpoint parse_brk (p : parser) (fuel : nat) (bs : bytes) (acc : list enc) : option (list enc * bytes) :=
  match fuel with
  | O => None
  | S fuel =>
    if starts 255 bs then Some (rev acc, tl bs)
    else match p bs with Some (e, r) => parse_brk p fuel r (e :: acc) | None => None end
  end.

(* definite-length chunks of major type mt until break *)
Fixpoint parse_chunks (mt : N) (fuel : nat) (bs : bytes) (acc : list chunk_t) : option (list chunk_t * bytes) :=
  match fuel with
  | O => None
  | S fuel =>
    match bs with
    | [] => None
    | b :: r =>
      if b =? 255 then Some (rev acc, r)
      else if negb (b / 32 =? mt) then None
      else match read_arg (b mod 32) r with
           | Some (w, n, r') =>
             match take r' n with
             | Some (c, r'') => parse_chunks mt fuel r'' ((w, c) :: acc)
             | None => None
             end
           | None => None
           end
    end
  end.

Definition dispatch (p : parser) (bs : bytes) : option (enc * bytes) :=
  match bs with
  | [] => None
  | b :: r =>
    let mt := b / 32 in let ai := b mod 32 in
    if ai =? 31 then
      if mt =? 2 then match parse_chunks 2 (S (length r)) r [] with Some (cs, r') => Some (EBytesI cs, r') | None => None end
      else if mt =? 3 then match parse_chunks 3 (S (length r)) r [] with Some (cs, r') => Some (ETextI cs, r') | None => None end
      else if mt =? 4 then match parse_brk p (S (length r)) r [] with Some (es, r') => Some (EArrayI es, r') | None => None end
      else if mt =? 5 then match parse_brk p (S (length r)) r [] with
                           | Some (es, r') => if N.even (len es) then Some (EMapI es, r') else None
                           | None => None end
      else None
    else if mt =? 7 then
      if ai <? 24 then Some (ESimple ai, r)
      else if ai =? 24 then match r with x :: r' => if 32 <=? x then Some (ESimple x, r') else None | [] => None end
      else if ai =? 25 then match take r 2 with Some (a, r') => Some (EF16 (of_be a), r') | None => None end
      else if ai =? 26 then match take r 4 with Some (a, r') => Some (EF32 (of_be a), r') | None => None end
      else if ai =? 27 then match take r 8 with Some (a, r') => Some (EF64 (of_be a), r') | None => None end
      else None
    else match read_arg ai r with
         | None => None
         | Some (w, n, r1) =>
           if mt =? 0 then Some (EUInt w n, r1)
           else if mt =? 1 then Some (ENInt w n, r1)
           else if mt =? 2 then match take r1 n with Some (c, r2) => Some (EBytes w c, r2) | None => None end
           else if mt =? 3 then match take r1 n with Some (c, r2) => Some (EText w c, r2) | None => None end
           else if mt =? 4 then match parse_n p n (length r1) r1 [] with Some (es, r2) => Some (EArray w es, r2) | None => None end
           else if mt =? 5 then
             if n <? 9223372036854775808 then
               match parse_n p (2 * n) (length r1) r1 [] with Some (es, r2) => Some (EMap w es, r2) | None => None end
             else None
           else match p r1 with Some (e, r2) => Some (ETag w n e, r2) | None => None end
         end
  end.

Fixpoint parse (fuel : nat) (bs : bytes) {struct fuel} : option (enc * bytes) :=
  match fuel with O => None | S fuel => dispatch (parse fuel) bs end.

(* a byte string is exactly one well-formed item *)
Definition one_item (bs : bytes) : option enc :=
  match parse (S (length bs)) bs with
  | Some (e, []) => Some e
  | _ => None
  end.

(* a byte string is a sequence of well-formed items *)
Fixpoint items (fuel : nat) (bs : bytes) : option (list enc) :=
  match fuel with
  | O => None
  | S fuel =>
    match bs with
    | [] => Some []
    | _ => match parse (S (length bs)) bs with
           | Some (e, r) => match items fuel r with Some es => Some (e :: es) | None => None end
           | None => None
           end
    end
  end.
