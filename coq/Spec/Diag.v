(* Spec/Diag.v — the documented diagnostic notation (minicbor/src/lib.rs:230-262, token.rs:44-71) as a
   plain recursive function on encoding trees.  Specification side of C19: no tokens, no stack. *)
From MC Require Export Cbor Text Half.
Local Open Scope N_scope.

Definition lit (s : bytes) : list piece := [PLit s].

(* pieces of xs separated by sep *)
Fixpoint join {A} (sep : list A) (xs : list (list A)) : list A :=
  match xs with
  | [] => []
  | [x] => x
  | x :: r => x ++ sep ++ join sep r
  end.

(* key: value pairs *)
Fixpoint pairs {A} (colon : list A) (xs : list (list A)) : list (list A) :=
  match xs with
  | k :: v :: r => (k ++ colon ++ v) :: pairs colon r
  | _ => []
  end.

Definition d_comma := lit [44;32].      (* ", " *)
Definition d_colon := lit [58;32].      (* ": " *)

(* h'01 02 ef' *)
Definition d_bytes (b : bytes) : list piece :=
  lit ([104;39] ++ join [32] (map hex2 b) ++ [39]).
(* "text" *)
Definition d_text (b : bytes) : list piece := lit (34 :: b ++ [34]).

Definition d_simple (n : N) : list piece :=
  if n =? 20 then lit [102;97;108;115;101]                       (* false *)
  else if n =? 21 then lit [116;114;117;101]                     (* true *)
  else if n =? 22 then lit [110;117;108;108]                     (* null *)
  else if n =? 23 then lit [117;110;100;101;102;105;110;101;100] (* undefined *)
  else lit ([115;105;109;112;108;101;40] ++ dec_n n ++ [41]).    (* simple(n) *)

Fixpoint render (e : enc) : list piece :=
  match e with
  | EUInt _ n => lit (dec_n n)
  | ENInt _ n => lit (dec_z (-1 - Z.of_N n))
  | EBytes _ b => d_bytes b
  | EBytesI cs =>
      match cs with
      | [] => lit [39;39;95]                                                  (* ''_ *)
      | _ => lit [40;95;32] ++ join d_comma (map (fun c => d_bytes (snd c)) cs) ++ lit [41]   (* (_ a, b) *)
      end
  | EText _ b => d_text b
  | ETextI cs =>
      match cs with
      | [] => lit [34;34;95]                                                  (* ""_ *)
      | _ => lit [40;95;32] ++ join d_comma (map (fun c => d_text (snd c)) cs) ++ lit [41]
      end
  | EArray _ es => lit [91] ++ join d_comma (map render es) ++ lit [93]                       (* [a, b] *)
  | EArrayI es => lit [91;95;32] ++ join d_comma (map render es) ++ lit [93]                  (* [_ a, b] *)
  | EMap _ es => lit [123] ++ join d_comma (pairs d_colon (map render es)) ++ lit [125]       (* {k: v, k: v} *)
  | EMapI es => lit [123;95;32] ++ join d_comma (pairs d_colon (map render es)) ++ lit [125]  (* {_ k: v} *)
  | ETag _ t e => lit (dec_n t ++ [40]) ++ render e ++ lit [41]                               (* t(..) *)
  | ESimple n => d_simple n
  | EF16 b => [PFloat 16 b]          (* scientific notation of the half-precision value *)
  | EF32 b => [PFloat 32 b]
  | EF64 b => [PFloat 64 b]
  end.

(* the flat text of a piece list, with float and error pieces kept symbolic *)
Inductive sym := SByte (b : N) | SFloat (w bits : N) | SErr (e : err).
Definition flat_piece (p : piece) : list sym :=
  match p with PLit b => map SByte b | PFloat w x => [SFloat w x] | PErr e => [SErr e] end.
Definition flat_pieces (ps : list piece) : list sym := flat_map flat_piece ps.

(* Rust holds a decoded half float as the f32 with the same value (exact widening, C12) and prints
   that; the notation of a 16-bit float piece is the notation of its 32-bit image *)
Definition widen16 (p : piece) : piece :=
  match p with PFloat w b => if w =? 16 then PFloat 32 (f16_to_f32 b) else p | _ => p end.
Definition render32 (e : enc) : list piece := map widen16 (render e).
