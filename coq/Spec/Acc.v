(* Spec/Acc.v — what the RFC 8949 data model assigns to a well-formed item when it is read through
   each typed accessor, as a function on encoding trees (specification side; no decoder code here).
   XOk v k : the accessor must return v and leave the position k bytes further;
   XErr    : the accessor must return an error (the item does not have the accessor's shape, or the
             value is not representable in the accessor's type);
   XAny    : the property does not constrain this combination. *)
From MC Require Export Cbor Utf8.
Local Open Scope N_scope.

Inductive acc :=
| AU8 | AU16 | AU32 | AU64 | AI8 | AI16 | AI32 | AI64 | AInt | AChar
| ABool | ANull | AUndefined | ASimple | AF16 | AF32 | AF64
| ABytes | AStr | ABytesIter | AStrIter | AArray | AMap | ATag | ASkip.

Inductive aval :=
| VN (n : N) | VZ (z : Z) | VB (b : bool) | VU | VBytes (b : bytes) | VChunks (l : list bytes)
| VLen (o : option N) | VF (bits : N).

Inductive expect := XOk (v : aval) (consumed : N) | XErr | XAny.

(* the integer an item denotes, if it is one *)
Definition int_value (e : enc) : option Z :=
  match e with
  | EUInt _ n => Some (Z.of_N n)
  | ENInt _ n => Some (-1 - Z.of_N n)%Z
  | _ => None
  end.

Definition in_range (lo hi v : Z) : bool := ((lo <=? v) && (v <=? hi))%Z.

Definition int_acc (lo hi : Z) (mk : Z -> aval) (e : enc) : expect :=
  match int_value e with
  | Some v => if in_range lo hi v then XOk (mk v) (len (ser e)) else XErr
  | None => XErr
  end.

Definition mkN (v : Z) : aval := VN (Z.to_N v).

Definition head_len (w : width) : N :=
  match w with W0 => 1 | W1 => 2 | W2 => 3 | W4 => 5 | W8 => 9 end.

Definition nonempty (l : list bytes) : list bytes := filter (fun b => negb (len b =? 0)) l.

(* every text string (and every chunk of a chunked one) inside e is valid UTF-8 *)
Fixpoint utf8_ok (e : enc) : bool :=
  match e with
  | EText _ b => utf8_valid b
  | ETextI cs => forallb (fun c => utf8_valid (snd c)) cs
  | EArray _ es | EArrayI es | EMap _ es | EMapI es => forallb utf8_ok es
  | ETag _ _ e' => utf8_ok e'
  | _ => true
  end.

(* a syntactic class on which the build without `alloc` must skip successfully (decoder.rs:595: "skipping
   over maps or arrays that contain an indefinite-length map or array will return an error"):
   no indefinite array/map anywhere below a definite array/map *)
Fixpoint defonly (e : enc) : bool :=
  match e with
  | EArray _ es | EMap _ es => forallb defonly es
  | EArrayI _ | EMapI _ => false
  | ETag _ _ e => defonly e
  | _ => true
  end.
Fixpoint noalloc_ok (e : enc) : bool :=
  match e with
  | EArrayI es | EMapI es => forallb noalloc_ok es
  | ETag _ _ e => noalloc_ok e
  | _ => defonly e
  end.

Definition spec_acc (a : acc) (e : enc) : expect :=
  match a with
  | AU8 => int_acc 0 255 mkN e
  | AU16 => int_acc 0 65535 mkN e
  | AU32 => int_acc 0 4294967295 mkN e
  | AU64 => int_acc 0 18446744073709551615 mkN e
  | AI8 => int_acc (-128) 127 VZ e
  | AI16 => int_acc (-32768) 32767 VZ e
  | AI32 => int_acc (-2147483648) 2147483647 VZ e
  | AI64 => int_acc (-9223372036854775808) 9223372036854775807 VZ e
  | AInt => int_acc (-18446744073709551616) 18446744073709551615 VZ e
  | AChar => match e with
             | EUInt _ n => if is_scalar n then XOk (VN n) (len (ser e)) else XErr
             | _ => XErr
             end
  | ABool => match e with
             | ESimple n => if n =? 20 then XOk (VB false) 1 else if n =? 21 then XOk (VB true) 1 else XErr
             | _ => XErr
             end
  | ANull => match e with ESimple n => if n =? 22 then XOk VU 1 else XErr | _ => XErr end
  | AUndefined => match e with ESimple n => if n =? 23 then XOk VU 1 else XErr | _ => XErr end
  | ASimple => match e with
               | ESimple n => if (20 <=? n) && (n <=? 23) then XAny else XOk (VN n) (len (ser e))
               | _ => XErr
               end
  | AF16 => match e with EF16 _ => XAny | _ => XErr end          (* value: Props/C12 *)
  | AF32 => match e with EF32 b => XOk (VF b) 5 | EF16 _ => XAny | _ => XErr end
  | AF64 => match e with EF64 b => XOk (VF b) 9 | EF16 _ | EF32 _ => XAny | _ => XErr end
  | ABytes => match e with
              | EBytes _ b => XOk (VBytes b) (len (ser e))
              | _ => XErr                                        (* definite length only, as documented *)
              end
  | AStr => match e with
            | EText _ b => if utf8_valid b then XOk (VBytes b) (len (ser e)) else XErr
            | _ => XErr
            end
  | ABytesIter => match e with
                  | EBytes _ b => XOk (VChunks (nonempty [b])) (len (ser e))
                  | EBytesI cs => XOk (VChunks (map snd cs)) (len (ser e))
                  | _ => XErr
                  end
  | AStrIter => match e with
                | EText _ b => if utf8_valid b then XOk (VChunks (nonempty [b])) (len (ser e)) else XErr
                | ETextI cs => if forallb (fun c => utf8_valid (snd c)) cs
                               then XOk (VChunks (map snd cs)) (len (ser e)) else XErr
                | _ => XErr
                end
  | AArray => match e with
              | EArray w es => XOk (VLen (Some (len es))) (head_len w)
              | EArrayI _ => XOk (VLen None) 1
              | _ => XErr
              end
  | AMap => match e with
            | EMap w es => XOk (VLen (Some (len es / 2))) (head_len w)
            | EMapI _ => XOk (VLen None) 1
            | _ => XErr
            end
  | ATag => match e with ETag w t _ => XOk (VN t) (head_len w) | _ => XErr end
  | ASkip => if utf8_ok e then XOk VU (len (ser e)) else XAny    (* skip validates text (str_iter) *)
  end.
