(* Spec/SerdeDoc.v — the documented representation of the serde data model in minicbor-serde, as a function
   from the call tree to an encoding tree, written from the crate documentation / the property text and
   independent of the model code in Model/Serde.v (only the type `sval` is shared):

     bool                 -> simple 20 / 21            integers       -> major 0 / 1
     f32 / f64            -> float32 / float64         char           -> unsigned integer (the scalar value)
     str                  -> text string               bytes          -> byte string
     None                 -> null                      Some(x)        -> x
     unit, unit struct    -> empty array               newtype struct -> its content
     unit variant         -> the variant name as text
     newtype / tuple / struct variant -> one-entry map from the variant name to the content
     seq                  -> array, indefinite iff the length is not known in advance
     tuple, tuple struct  -> array                     map            -> map, indefinite iff length unknown
     struct               -> map keyed by field name (text)

   Head widths in the tree are placeholders; statements use `prefer`, which makes every head the shortest
   one and keeps definite / indefinite as given.
   Also here: the typing relation between shapes and values, the excluded classes of C17, and the embedding of
   the shared data model of C18. *)
From MC Require Export Cbor Serde.
Local Open Scope N_scope.

Definition doc_int (z : Z) : enc :=
  if (0 <=? z)%Z then EUInt W8 (Z.to_N z) else ENInt W8 (Z.to_N (-1 - z)).

Fixpoint serde_doc_tree (v : sval) : enc :=
  let fields := fix go (fs : list (bytes * sval)) : list enc :=
    match fs with [] => [] | (k, x) :: r => EText W8 k :: serde_doc_tree x :: go r end in
  match v with
  | SBool b => ESimple (if b then 21 else 20)
  | SI _ z => doc_int z
  | SU _ n => EUInt W8 n
  | SF32 b => EF32 b
  | SF64 b => EF64 b
  | SChar c => EUInt W8 c
  | SStr b | SCollectStr b => EText W8 b
  | SBytes b => EBytes W8 b
  | SNone => ESimple 22
  | SSome x => serde_doc_tree x
  | SUnit | SUnitStruct => EArray W8 []
  | SUnitVariant _ name => EText W8 name
  | SNewtypeStruct x => serde_doc_tree x
  | SNewtypeVariant _ name x => EMap W8 [EText W8 name; serde_doc_tree x]
  | SSeq (Some _) l => EArray W8 (map serde_doc_tree l)
  | SSeq None l => EArrayI (map serde_doc_tree l)
  | STuple _ l | STupleStruct _ l => EArray W8 (map serde_doc_tree l)
  | STupleVariant _ name _ l => EMap W8 [EText W8 name; EArray W8 (map serde_doc_tree l)]
  | SMap (Some _) kvs => EMap W8 (map serde_doc_tree kvs)
  | SMap None kvs => EMapI (map serde_doc_tree kvs)
  | SStruct _ fs => EMap W8 (fields fs)
  | SStructVariant _ name _ fs => EMap W8 [EText W8 name; EMap W8 (fields fs)]
  end.

(* ------------------------------------------------------------------ typing: which values a shape describes *)
Definition str_ok (b : bytes) : bool := bytes_ok b && utf8_valid b && (len b <? two64).

Fixpoint names_distinct (l : list bytes) : bool :=
  match l with [] => true | n :: r => negb (existsb (beq n) r) && names_distinct r end.

Definition zip_b {A B} (f : A -> B -> bool) := fix go (l : list A) (m : list B) : bool :=
  match l, m with [] , [] => true | a :: l', b :: m' => f a b && go l' m' | _, _ => false end.

Definition alt_b {B} (fk fv : B -> bool) := fix go (m : list B) : bool :=
  match m with [] => true | k :: v :: r => fk k && fv v && go r | _ => false end.

Definition kind_eqb (a b : vkind) : bool :=
  match a, b with KUnit, KUnit | KNewtype, KNewtype | KTuple, KTuple | KStruct, KStruct => true | _, _ => false end.
Definition iw_eqb (a b : iw) : bool :=
  match a, b with B8, B8 | B16, B16 | B32, B32 | B64, B64 => true | _, _ => false end.

(* the variant list accepts the value's variant: index, name, kind; the payload is checked by the caller *)
Definition variant_at {A} (vs : list (bytes * (vkind * A))) (i : N) (name : bytes) (k : vkind) : option A :=
  match nth_error vs (N.to_nat i) with
  | Some (n, (k', a)) => if beq n name && kind_eqb k k' then Some a else None
  | None => None
  end.

Definition field_b (f : shape -> sval -> bool) (p : bytes * shape) (q : bytes * sval) : bool :=
  beq (fst p) (fst q) && f (snd p) (snd q).

(* conforms sh v: v is the call tree of a value of a type of shape sh (direct shapes only; the any-driven
   shapes have type-specific trees and are exercised by the correspondence only) *)
Fixpoint conforms (sh : shape) (v : sval) {struct sh} : bool :=
  match sh, v with
  | ShBool, SBool _ => true
  | ShI w, SI w' z => iw_eqb w w' && zin w z
  | ShU w, SU w' n => iw_eqb w w' && (n <=? umax w)
  | ShF32, SF32 b => b <? 4294967296
  | ShF64, SF64 b => b <? two64
  | ShChar, SChar c => is_scalar c
  | ShStr _, SStr b => str_ok b
  | ShDisplayStr, SCollectStr b => str_ok b
  | ShBytes _, SBytes b => bytes_ok b && (len b <? two64)
  | ShOption _, SNone => true
  | ShOption s, SSome x => conforms s x
  | ShUnit, SUnit => true
  | ShUnitStruct, SUnitStruct => true
  | ShNewtypeStruct s, SNewtypeStruct x => conforms s x
  | ShSeq known s, SSeq n l =>
      (match n with Some k => known && (k =? len l) | None => negb known end) && (len l <? two64) && forallb (conforms s) l
  | ShTuple ss, STuple n l => (n =? len ss) && (n <? two64) && zip_b conforms ss l
  | ShTupleStruct ss, STupleStruct n l => (n =? len ss) && (n <? two64) && zip_b conforms ss l
  | ShMap known k v, SMap n kvs =>
      (match n with Some m => known && (m =? len kvs / 2) | None => negb known end) && (len kvs / 2 <? two64)
      && alt_b (conforms k) (conforms v) kvs
  | ShStruct fs, SStruct n vs =>
      (n =? len fs) && (n <? two64) && zip_b (field_b conforms) fs vs
  | ShEnum vs, SUnitVariant i name =>
      match variant_at vs i name KUnit with Some _ => true | None => false end
  | ShEnum vs, SNewtypeVariant i name x =>
      match variant_at (map (fun p : bytes * (vkind * shape) => let (n, ks) := p in let (k, s) := ks in (n, (k, conforms s))) vs)
                       i name KNewtype with
      | Some f => f x | None => false end
  | ShEnum vs, STupleVariant i name n l =>
      match variant_at (map (fun p : bytes * (vkind * shape) => let (n, ks) := p in let (k, s) := ks in (n, (k, conforms s))) vs)
                       i name KTuple with
      | Some f => f (STuple n l) | None => false end
  | ShEnum vs, SStructVariant i name n fs =>
      match variant_at (map (fun p : bytes * (vkind * shape) => let (n, ks) := p in let (k, s) := ks in (n, (k, conforms s))) vs)
                       i name KStruct with
      | Some f => f (SStruct n fs) | None => false end
  | _, _ => false
  end.

(* static well-formedness of a shape: names are text and pairwise distinct, variant payloads have the shape
   their kind says, fewer than 2^32 variants *)
Definition payload_ok (k : vkind) (s : shape) : bool :=
  match k, s with
  | KUnit, ShUnit | KNewtype, _ | KTuple, ShTuple _ | KStruct, ShStruct _ => true
  | _, _ => false
  end.

Fixpoint shape_ok (sh : shape) : bool :=
  match sh with
  | ShOption s | ShNewtypeStruct s | ShSeq _ s => shape_ok s
  | ShTuple ss | ShTupleStruct ss => (len ss <? two64) && forallb shape_ok ss
  | ShMap _ k v => shape_ok k && shape_ok v
  | ShStruct fs =>
      names_distinct (map fst fs) && forallb (fun p : bytes * shape => let (n, s) := p in str_ok n && shape_ok s) fs
  | ShEnum vs =>
      names_distinct (map fst vs) && (len vs <? 4294967296)
      && forallb (fun p : bytes * (vkind * shape) =>
                    let (n, ks) := p in let (k, s) := ks in str_ok n && payload_ok k s && shape_ok s) vs
  | _ => true
  end.

(* ------------------------------------------------------------------ the excluded classes of C17 *)
(* a value of this shape may be written as null *)
Fixpoint nullable (sh : shape) : bool :=
  match sh with
  | ShOption _ | ShAny => true
  | ShNewtypeStruct s => nullable s
  | ShUntagged vs => existsb (fun p : vkind * shape => let (k, s) := p in
                               match k with KNewtype => nullable s | _ => false end) vs
  | _ => false
  end.

(* "an Option directly inside an Option": an Option whose content may itself be written as null *)
Fixpoint opt_in_opt (sh : shape) : bool :=
  match sh with
  | ShOption s => nullable s || opt_in_opt s
  | ShNewtypeStruct s | ShSeq _ s => opt_in_opt s
  | ShTuple ss | ShTupleStruct ss => existsb opt_in_opt ss
  | ShMap _ k v => opt_in_opt k || opt_in_opt v
  | ShStruct fs => existsb (fun p : bytes * shape => let (_, s) := p in opt_in_opt s) fs
  | ShEnum vs | ShInternal _ vs | ShAdjacent _ _ vs =>
      existsb (fun p : bytes * (vkind * shape) => let (_, ks) := p in let (_, s) := ks in opt_in_opt s) vs
  | ShUntagged vs => existsb (fun p : vkind * shape => let (_, s) := p in opt_in_opt s) vs
  | ShFlat fs => existsb (fun p : bytes * (bool * shape) => let (_, fs') := p in let (_, s) := fs' in opt_in_opt s) fs
  | _ => false
  end.

(* the shape uses deserialize_any or serde's Content buffer somewhere *)
Fixpoint direct (sh : shape) : bool :=
  match sh with
  | ShOption s | ShNewtypeStruct s | ShSeq _ s => direct s
  | ShTuple ss | ShTupleStruct ss => forallb direct ss
  | ShMap _ k v => direct k && direct v
  | ShStruct fs => forallb (fun p : bytes * shape => let (_, s) := p in direct s) fs
  | ShEnum vs => forallb (fun p : bytes * (vkind * shape) => let (_, ks) := p in let (_, s) := ks in direct s) vs
  | ShInternal _ _ | ShAdjacent _ _ _ | ShUntagged _ | ShFlat _ | ShAny | ShIgnored => false
  | _ => true
  end.

(* Finding F12.  What serde's Content buffer cannot give back when it was filled through the bridge's
   deserialize_any: unit (an empty array is reported as a sequence) and char (reported as an integer);
   a unit struct only through ContentRefDeserializer (owned = false: untagged enums, flattened maps), because
   ContentDeserializer::deserialize_unit_struct accepts an empty sequence. *)
Fixpoint opaque (owned : bool) (sh : shape) : bool :=
  match sh with
  | ShUnit | ShChar => true
  | ShUnitStruct => negb owned
  | ShOption s | ShNewtypeStruct s | ShSeq _ s => opaque owned s
  | ShTuple ss | ShTupleStruct ss => existsb (opaque owned) ss
  | ShMap _ k v => opaque owned k || opaque owned v
  | ShStruct fs => existsb (fun p : bytes * shape => let (_, s) := p in opaque owned s) fs
  | ShEnum vs => existsb (fun p : bytes * (vkind * shape) => let (_, ks) := p in let (k, s) := ks in
                            match k with KUnit => false | _ => opaque owned s end) vs
  | ShUntagged vs => existsb (fun p : vkind * shape => let (k, s) := p in
                                match k with KUnit => true | _ => opaque false s end) vs
  | ShInternal _ _ | ShAdjacent _ _ _ | ShFlat _ | ShAny | ShIgnored => true
  | _ => false
  end.

(* the class delimited for F12: an opaque shape below a node that buffers through deserialize_any.
   An internally tagged newtype variant that *is* a unit or unit struct is written as the bare tag map and
   reads back; a flattened `()` field reads back (FlatMapDeserializer::deserialize_unit). *)
Fixpoint opaque_under_any (sh : shape) : bool :=
  match sh with
  | ShOption s | ShNewtypeStruct s | ShSeq _ s => opaque_under_any s
  | ShTuple ss | ShTupleStruct ss => existsb opaque_under_any ss
  | ShMap _ k v => opaque_under_any k || opaque_under_any v
  | ShStruct fs => existsb (fun p : bytes * shape => let (_, s) := p in opaque_under_any s) fs
  | ShEnum vs | ShAdjacent _ _ vs =>
      existsb (fun p : bytes * (vkind * shape) => let (_, ks) := p in let (_, s) := ks in opaque_under_any s) vs
  | ShUntagged vs => existsb (fun p : vkind * shape => let (k, s) := p in
                                match k with KUnit => true | _ => opaque false s end) vs
  | ShInternal _ vs =>
      existsb (fun p : bytes * (vkind * shape) => let (_, ks) := p in let (k, s) := ks in
                 match k, s with
                 | KUnit, _ | _, ShUnit | _, ShUnitStruct => false
                 | _, _ => opaque true s
                 end) vs
  | ShFlat fs =>
      existsb (fun p : bytes * (bool * shape) => let (_, fs') := p in let (fl, s) := fs' in
                 if fl then match s with
                            | ShUnit => false
                            | ShMap _ k v => opaque false k || opaque false v
                            | _ => opaque true s
                            end
                 else opaque_under_any s) fs
  | _ => false
  end.

(* ------------------------------------------------------------------ C18: the shared data model *)
Fixpoint shared (t : ty) : bool :=
  match t with
  | TyU _ | TyI _ | TyBool | TyChar | TyF32 | TyF64 | TyStr | TyUnit => true
  | TyOpt t' | TySeq t' => shared t'
  | TyArr n t' => (n <=? 32) && shared t'            (* serde implements [T; N] for N <= 32 *)
  | TyMap k v => shared k && shared v
  | TyTuple ts => (len ts <=? 16) && forallb shared ts
  | _ => false
  end.

Fixpoint shape_of (t : ty) : shape :=
  match t with
  | TyU w => ShU w | TyI w => ShI w | TyBool => ShBool | TyChar => ShChar | TyF32 => ShF32 | TyF64 => ShF64
  | TyStr => ShStr false | TyUnit => ShUnit
  | TyOpt t' => ShOption (shape_of t')
  | TySeq t' => ShSeq true (shape_of t')
  | TyArr n t' => ShTuple (repeat (shape_of t') (N.to_nat n))
  | TyMap k v => ShMap true (shape_of k) (shape_of v)
  | TyTuple ts => ShTuple (map shape_of ts)
  | _ => ShIgnored
  end.

Definition emb_zip := fix go (fs : list (value -> sval)) (l : list value) : list sval :=
  match fs, l with f :: fs', x :: r => f x :: go fs' r | _, _ => [] end.

Definition emb_alt (fk fv : value -> sval) := fix go (l : list value) : list sval :=
  match l with k :: v :: r => fk k :: fv v :: go r | _ => [] end.

(* the Serializer calls serde's own impls make for a value of a shared type *)
Fixpoint embed (t : ty) (v : value) {struct t} : sval :=
  match t, v with
  | TyU w, VNat n => SU w n
  | TyI w, VInt z => SI w z
  | TyBool, VBool b => SBool b
  | TyChar, VNat c => SChar c
  | TyF32, VFloat b => SF32 b
  | TyF64, VFloat b => SF64 b
  | TyStr, VBlob b => SStr b
  | TyUnit, _ => SUnit
  | TyOpt t', VSome x => SSome (embed t' x)
  | TyOpt _, _ => SNone
  | TySeq t', VList l => SSeq (Some (len l)) (map (embed t') l)                 (* collect_seq on an exact-size iterator *)
  | TyArr n t', VList l => STuple n (map (embed t') l)                          (* serialize_tuple(N) *)
  | TyMap k x, VList l => SMap (Some (len l / 2)) (emb_alt (embed k) (embed x) l) (* collect_map *)
  | TyTuple ts, VList l => STuple (len ts) (emb_zip (map embed ts) l)        (* serialize_tuple(len) *)
  | _, _ => SUnit
  end.

(* no Option directly inside an Option in a shared type *)
Fixpoint ty_opt_opt (t : ty) : bool :=
  match t with
  | TyOpt t' => (match t' with TyOpt _ => true | _ => false end) || ty_opt_opt t'
  | TySeq t' | TyArr _ t' => ty_opt_opt t'
  | TyMap k v => ty_opt_opt k || ty_opt_opt v
  | TyTuple ts => existsb ty_opt_opt ts
  | _ => false
  end.
