(* Spec/IanaReg.v — the tag numbers of the IANA "CBOR Tags" registry for the tags minicbor names, transcribed in decimal from
   RFC 8949 section 3.4 (tags 0-5, 21-24, 32-36) and RFC 8746 (typed arrays 64-87 — 76 is reserved —, multi-dimensional arrays
   40 and 1040, homogeneous array 41), independently of the code's hexadecimal tables. *)
From MC Require Import Bytes Iana.
Local Open Scope N_scope.

Definition iana_registry (t : iana) : N :=
  match t with
  | IaDateTime => 0
  | IaTimestamp => 1
  | IaPosBignum => 2
  | IaNegBignum => 3
  | IaDecimal => 4
  | IaBigfloat => 5
  | IaToBase64Url => 21
  | IaToBase64 => 22
  | IaToBase16 => 23
  | IaCbor => 24
  | IaUri => 32
  | IaBase64Url => 33
  | IaBase64 => 34
  | IaRegex => 35
  | IaMime => 36
  | IaHomogenousArray => 41
  | IaTypedArrayU8 => 64
  | IaTypedArrayU8Clamped => 68
  | IaTypedArrayU16B => 65
  | IaTypedArrayU32B => 66
  | IaTypedArrayU64B => 67
  | IaTypedArrayU16L => 69
  | IaTypedArrayU32L => 70
  | IaTypedArrayU64L => 71
  | IaTypedArrayI8 => 72
  | IaTypedArrayI16B => 73
  | IaTypedArrayI32B => 74
  | IaTypedArrayI64B => 75
  | IaTypedArrayI16L => 77
  | IaTypedArrayI32L => 78
  | IaTypedArrayI64L => 79
  | IaTypedArrayF16B => 80
  | IaTypedArrayF32B => 81
  | IaTypedArrayF64B => 82
  | IaTypedArrayF128B => 83
  | IaTypedArrayF16L => 84
  | IaTypedArrayF32L => 85
  | IaTypedArrayF64L => 86
  | IaTypedArrayF128L => 87
  | IaMultiDimArrayR => 40
  | IaMultiDimArrayC => 1040
  end.
