(* Spec/Float16.v — IEEE 754-2019 binary interchange formats as exact integer data (specification side).
   Nothing here is shared with Model/Half.v: no masks, no bit tests; only the field layout of
   clause 3.4 (sign | w exponent bits | t trailing significand bits), integer division and remainders.

   A bit pattern denotes (clause 3.4):
     e = 2^w - 1, m <> 0      NaN
     e = 2^w - 1, m  = 0      (-1)^s * infinity
     1 <= e <= 2^w - 2        (-1)^s * 2^(e - fbias) * (1 + m / 2^t)   = (-1)^s * (2^t + m) * 2^(e - fbias - t)
     e = 0, m <> 0            (-1)^s * 2^(1 - fbias) * (m / 2^t)       = (-1)^s * m * 2^(1 - fbias - t)
     e = 0, m  = 0            (-1)^s * 0
   with fbias = 2^(w-1) - 1.  A finite non-zero datum is kept as the exact pair (man, exp), man > 0, meaning
   man * 2^exp; two pairs denote the same real iff they agree after scaling to the smaller exponent.

   Definitions only (guide: no lemmas in Spec/); facts are in Proofs/HalfFacts.v and Proofs/HalfRoundFacts.v;
   cross-check against Flocq in Proofs/Float16Flocq.v. *)
From Coq Require Import NArith ZArith Bool.
Local Open Scope Z_scope.

(* a * 2^k for k >= 0 (Z.shiftl_mul_pow2), computed by shifting so that the extracted code stays fast at
   binary64 scales (2^2045) *)
Definition scale (a k : Z) : Z := Z.shiftl a k.
Definition pow2 (k : Z) : Z := scale 1 k.

Record fmt := mkfmt { ebits : Z; mbits : Z }.      (* w, t *)
Definition binary16 : fmt := mkfmt 5 10.
Definition binary32 : fmt := mkfmt 8 23.
Definition binary64 : fmt := mkfmt 11 52.

Definition fbias (f : fmt) : Z := pow2 (ebits f - 1) - 1.           (* 15, 127, 1023 *)
Definition fqmin (f : fmt) : Z := 1 - fbias f - mbits f.            (* exponent of the smallest quantum: -24, -149, -1074 *)

Inductive fval :=
| FNan                                   (* sign and payload of a NaN are not part of what it denotes *)
| FInf (neg : bool)
| FZero (neg : bool)
| FFin (neg : bool) (man exp : Z).       (* (-1)^neg * man * 2^exp, man > 0 *)

(* fields of a pattern *)
Definition fld_man (f : fmt) (b : Z) : Z := b mod pow2 (mbits f).
Definition fld_exp (f : fmt) (b : Z) : Z := (b / pow2 (mbits f)) mod pow2 (ebits f).
Definition fld_sign (f : fmt) (b : Z) : bool := Z.odd (b / pow2 (mbits f + ebits f)).

(* what a bit pattern denotes *)
Definition fdecode (f : fmt) (bits : N) : fval :=
  let b := Z.of_N bits in
  let m := fld_man f b in
  let e := fld_exp f b in
  let s := fld_sign f b in
  if e =? pow2 (ebits f) - 1 then (if m =? 0 then FInf s else FNan)
  else if e =? 0 then (if m =? 0 then FZero s else FFin s m (fqmin f))
  else FFin s (pow2 (mbits f) + m) (e - fbias f - mbits f).

(* same datum: same class; NaN = NaN whatever sign/payload; signs of zeros and infinities count;
   finite: same sign and man * 2^exp = man' * 2^exp' (compared as integers after scaling by 2^-min) *)
Definition feq (a b : fval) : bool :=
  match a, b with
  | FNan, FNan => true
  | FInf s, FInf s' => Bool.eqb s s'
  | FZero s, FZero s' => Bool.eqb s s'
  | FFin s m e, FFin s' m' e' =>
      Bool.eqb s s' && (let k := Z.min e e' in scale m (e - k) =? scale m' (e' - k))
  | _, _ => false
  end.

Definition fv_is_nan (v : fval) : bool := match v with FNan => true | _ => false end.
Definition fv_is_finite (v : fval) : bool := match v with FZero _ | FFin _ _ _ => true | _ => false end.

(* a / b rounded to the nearest integer, ties to the even one (b > 0, a >= 0) *)
Definition rne_div (a b : Z) : Z :=
  let q := a / b in
  let r := a mod b in
  if 2 * r <? b then q
  else if b <? 2 * r then q + 1
  else if Z.even q then q else q + 1.

(* roundTiesToEven of the positive real man * 2^exp into format f (clause 4.3.1), as the pattern of the
   magnitude (sign bit clear).
     q    exponent of the quantum of the binade the value lies in: floor(log2 value) - t, but not below fqmin
          (subnormals and the first normal binade share the quantum 2^fqmin);
     n    the value in units of 2^q, rounded to nearest even: 0 <= n <= 2^(t+1);
     overflow (clause 7.4): the rounded value n * 2^q exceeds the largest finite number
          (2^(t+1) - 1) * 2^(fbias - t) -> infinity.  For binary16 that is 65504, i.e. every value >= 65520;
     otherwise the pattern is (q - fqmin) * 2^t + n: for subnormal results (q = fqmin, n < 2^t) that is n itself,
          for normal results n carries the hidden bit, which adds one to the exponent field, and n = 2^(t+1)
          (rounded up to the next binade) adds two — the next power of two, as it should. *)
Definition round_mag (f : fmt) (man exp : Z) : Z :=
  let t := mbits f in
  let q := Z.max (fqmin f) (Z.log2 man + exp - t) in
  let n := if q <=? exp then scale man (exp - q) else rne_div man (pow2 (q - exp)) in
  if scale (pow2 (t + 1) - 1) (fbias f - t - fqmin f) <? scale n (q - fqmin f)
  then scale (pow2 (ebits f) - 1) t
  else scale (q - fqmin f) t + n.

Definition fsign_bit (f : fmt) (s : bool) : Z := if s then pow2 (mbits f + ebits f) else 0.

(* conversion of a non-NaN datum to format f under roundTiesToEven *)
Definition encode_rne (f : fmt) (v : fval) : option N :=
  match v with
  | FNan => None
  | FInf s => Some (Z.to_N (fsign_bit f s + scale (pow2 (ebits f) - 1) (mbits f)))
  | FZero s => Some (Z.to_N (fsign_bit f s))
  | FFin s m e => Some (Z.to_N (fsign_bit f s + round_mag f m e))
  end.

(* binary32 pattern -> binary16 pattern, IEEE 754 convertFormat under roundTiesToEven.
   Non-NaN operands: fully specified by the standard (encode_rne above).
   NaN operands: the standard requires only that the result be a quiet NaN (6.2: "should" keep the payload).
   This specification fixes the mapping used by every implementation in sight (half's software path, x86 F16C,
   ARM FCVT): same sign, quiet bit set, the 10 most significant payload bits kept.  Consumers that must not
   depend on that choice use [fv_is_nan (fdecode binary16 (rne16 x))] only (Props/C12.v, C12_round_nan). *)
Definition rne16 (x : N) : N :=
  match encode_rne binary16 (fdecode binary32 x) with
  | Some h => h
  | None =>
      let b := Z.of_N x in
      Z.to_N (fsign_bit binary16 (fld_sign binary32 b) + scale 31 10 + pow2 9
              + (fld_man binary32 b / pow2 13) mod pow2 9)
  end.

(* exact widening (every binary16 datum is a binary32 datum, every binary32 datum a binary64 datum):
   the pattern in the wider format denoting the same datum; None for NaN (payload of a widened NaN is
   platform-defined, only its class is specified) *)
Definition widen (from to : fmt) (bits : N) : option N := encode_rne to (fdecode from bits).

(* |x| >= 65520 for a finite binary32 datum: where binary16 overflows *)
Definition overflows16 (v : fval) : bool :=
  match v with
  | FFin _ m e => if 0 <=? e then 65520 <=? scale m e else scale 65520 (- e) <=? m
  | _ => false
  end.
