
val negb : bool -> bool

type nat =
| O
| S of nat

val fst : ('a1 * 'a2) -> 'a1

val snd : ('a1 * 'a2) -> 'a2

val length : 'a1 list -> nat

val app : 'a1 list -> 'a1 list -> 'a1 list

type comparison =
| Eq
| Lt
| Gt

val compOpp : comparison -> comparison

val add : nat -> nat -> nat

val tl : 'a1 list -> 'a1 list

val rev : 'a1 list -> 'a1 list

val concat : 'a1 list list -> 'a1 list

val map : ('a1 -> 'a2) -> 'a1 list -> 'a2 list

val flat_map : ('a1 -> 'a2 list) -> 'a1 list -> 'a2 list

val fold_left : ('a1 -> 'a2 -> 'a1) -> 'a2 list -> 'a1 -> 'a1

val fold_right : ('a2 -> 'a1 -> 'a1) -> 'a1 -> 'a2 list -> 'a1

val forallb : ('a1 -> bool) -> 'a1 list -> bool

val repeat : 'a1 -> nat -> 'a1 list

type positive =
| XI of positive
| XO of positive
| XH

type n =
| N0
| Npos of positive

type z =
| Z0
| Zpos of positive
| Zneg of positive

module Pos :
 sig
  type mask =
  | IsNul
  | IsPos of positive
  | IsNeg
 end

module Coq_Pos :
 sig
  val succ : positive -> positive

  val add : positive -> positive -> positive

  val add_carry : positive -> positive -> positive

  val pred_double : positive -> positive

  val pred_N : positive -> n

  type mask = Pos.mask =
  | IsNul
  | IsPos of positive
  | IsNeg

  val succ_double_mask : mask -> mask

  val double_mask : mask -> mask

  val double_pred_mask : positive -> mask

  val sub_mask : positive -> positive -> mask

  val sub_mask_carry : positive -> positive -> mask

  val mul : positive -> positive -> positive

  val iter : ('a1 -> 'a1) -> 'a1 -> positive -> 'a1

  val pow : positive -> positive -> positive

  val size : positive -> positive

  val compare_cont : comparison -> positive -> positive -> comparison

  val compare : positive -> positive -> comparison

  val eqb : positive -> positive -> bool

  val coq_Nsucc_double : n -> n

  val coq_Ndouble : n -> n

  val coq_lor : positive -> positive -> positive

  val coq_land : positive -> positive -> n

  val iter_op : ('a1 -> 'a1 -> 'a1) -> positive -> 'a1 -> 'a1

  val to_nat : positive -> nat

  val of_succ_nat : nat -> positive
 end

module N :
 sig
  val succ_double : n -> n

  val double : n -> n

  val pred : n -> n

  val add : n -> n -> n

  val sub : n -> n -> n

  val mul : n -> n -> n

  val compare : n -> n -> comparison

  val eqb : n -> n -> bool

  val leb : n -> n -> bool

  val ltb : n -> n -> bool

  val min : n -> n -> n

  val even : n -> bool

  val pow : n -> n -> n

  val size : n -> n

  val pos_div_eucl : positive -> n -> n * n

  val div_eucl : n -> n -> n * n

  val div : n -> n -> n

  val modulo : n -> n -> n

  val coq_lor : n -> n -> n

  val coq_land : n -> n -> n

  val to_nat : n -> nat

  val of_nat : nat -> n
 end

module Z :
 sig
  val double : z -> z

  val succ_double : z -> z

  val pred_double : z -> z

  val pos_sub : positive -> positive -> z

  val add : z -> z -> z

  val opp : z -> z

  val sub : z -> z -> z

  val compare : z -> z -> comparison

  val leb : z -> z -> bool

  val ltb : z -> z -> bool

  val to_N : z -> n

  val of_N : n -> z
 end

type bytes = n list

val byte_ok : n -> bool

val bytes_ok : bytes -> bool

val len : 'a1 list -> n

val be : nat -> n -> bytes

val of_be : bytes -> n

val take : 'a1 list -> n -> ('a1 list * 'a1 list) option

val dropN : 'a1 list -> n -> 'a1 list

val u64_max : n

type ctype =
| TBool
| TNull
| TUndefined
| TU8
| TU16
| TU32
| TU64
| TI8
| TI16
| TI32
| TI64
| TInt
| TF16
| TF32
| TF64
| TSimple
| TBytes
| TBytesIndef
| TString
| TStringIndef
| TArray
| TArrayIndef
| TMap
| TMapIndef
| TTag
| TBreak
| TUnknown of n

type err =
| EndOfInput
| TypeMismatch of ctype
| Overflow of n
| InvalidChar of n
| Utf8
| TagMismatch of n
| UnknownVariant of n
| MissingValue of n
| Message
| Custom

type 'a result =
| Ok of 'a
| Err of err
| Panic
| OutOfFuel

type dst = { dpos : n; drest : bytes; dlen : n }

type 'a m = dst -> 'a result * dst

val ret : 'a1 -> 'a1 m

val fail : err -> 'a1 m

val bind : 'a1 m -> ('a1 -> 'a2 m) -> 'a2 m

val fmap : ('a1 -> 'a2) -> 'a1 m -> 'a2 m

val start : bytes -> dst

val run : 'a1 m -> bytes -> 'a1 result * dst

val at_pos : bytes -> n -> dst

val inr : n -> n -> n -> bool

val utf8_valid_fuel : nat -> bytes -> bool

val utf8_valid : bytes -> bool

val is_scalar : n -> bool

val lz16 : n -> n

val f16_to_f32 : n -> n

val round_up_bits : n -> n -> bool

val f32_to_f16 : n -> n

val f32_to_f64 : n -> n

val is_nan32 : n -> bool

val is_nan64 : n -> bool

val is_nan16 : n -> bool

type cfg = { c_alloc : bool; c_std : bool; c_half : bool }

val cfg_full : cfg

val current : n m

val read : n m

val peek : n m

val read_slice : n -> bytes m

val read_be : nat -> n m

val type_of : n -> ctype m

val mismatch : n -> 'a1 m

val major : n -> n

val info : n -> n

val unsigned : n -> n m

val try_as : n -> n -> n m

val dec_uint : n -> n m

val dec_u8 : n m

val dec_u16 : n m

val dec_u32 : n m

val dec_u64 : n m

val dec_sint : n -> z m

val dec_i8 : z m

val dec_i16 : z m

val dec_i32 : z m

val dec_i64 : z m

val dec_int : (bool * n) m

val dec_f16 : n m

val dec_f32 : cfg -> n m

val dec_f64 : cfg -> n m

val dec_bool : bool m

val dec_char : n m

val dec_bytes : bytes m

val dec_str : bytes m

val chunks_until_break : bytes m -> nat -> bytes list -> bytes list m

val dec_bytes_iter : nat -> bytes list m

val dec_str_iter : nat -> bytes list m

val dec_container : n -> n option m

val dec_array : n option m

val dec_map : n option m

val dec_tag : n m

val dec_null : unit m

val dec_undefined : unit m

val dec_simple : n m

val datatype : ctype m

val sat_add : n -> n -> n

val sat_mul : n -> n -> n

type frame =
| FSome of n
| FNone

type skst = { nr : n; ir : n; stk : frame list }

val pop_zeros : frame list -> frame list

val counting : skst -> bool

val skip_after : skst -> skst option

val skip_definite : skst -> n -> skst

val skip_indefinite : skst -> skst

val skip_break : skst -> skst

val skip_step : nat -> skst -> skst option m

val skip_running : skst -> bool

val skip_loop : nat -> skst -> unit m

val skip_alloc : nat -> unit m

type sknst = { nnr : n; nir : n }

val skipn_step : nat -> sknst -> sknst m

val skipn_loop : nat -> sknst -> unit m

val skip_noalloc : nat -> unit m

val skip : cfg -> nat -> unit m

val fuel_of : dst -> nat

val skip_auto : cfg -> unit m

type chunk = bytes

val flat : chunk list -> bytes

val sIGNED : n

val bYTES : n

val tEXT : n

val aRRAY : n

val mAP : n

val tAGGED : n

val sIMPLE : n

val as_u8 : n -> n

val as_u16 : n -> n

val as_u32 : n -> n

val enc_u8 : n -> chunk list

val enc_u16 : n -> chunk list

val enc_u32 : n -> chunk list

val enc_u64 : n -> chunk list

val neg_arg : z -> n

val enc_i8 : z -> chunk list

val enc_i16 : z -> chunk list

val enc_i32 : z -> chunk list

val enc_neg64 : n -> chunk list

val enc_i64 : z -> chunk list

val enc_int : bool -> n -> chunk list

val enc_null : chunk list

val enc_undefined : chunk list

val enc_simple : n -> chunk list

val enc_f32 : n -> chunk list

val enc_f64 : n -> chunk list

val enc_f16_bits : n -> chunk list

val enc_bool : bool -> chunk list

val enc_char : n -> chunk list

val type_len : n -> n -> chunk list

val enc_tag : n -> chunk list

val enc_bytes : bytes -> chunk list

val enc_str : bytes -> chunk list

val enc_array : n -> chunk list

val enc_map : n -> chunk list

val enc_begin_array : chunk list

val enc_begin_bytes : chunk list

val enc_begin_map : chunk list

val enc_begin_str : chunk list

val enc_end : chunk list

type width =
| W0
| W1
| W2
| W4
| W8

val fits : width -> n -> bool

val min_width : n -> width

val width_eqb : width -> width -> bool

val head : n -> width -> n -> bytes

type chunk_t = width * bytes

type enc =
| EUInt of width * n
| ENInt of width * n
| EBytes of width * bytes
| EBytesI of chunk_t list
| EText of width * bytes
| ETextI of chunk_t list
| EArray of width * enc list
| EArrayI of enc list
| EMap of width * enc list
| EMapI of enc list
| ETag of width * n * enc
| ESimple of n
| EF16 of n
| EF32 of n
| EF64 of n

val ser_chunk : n -> chunk_t -> bytes

val ser : enc -> bytes

val wf_chunk : chunk_t -> bool

val wf : enc -> bool

val pref : enc -> bool

val prefer_chunk : chunk_t -> chunk_t

val prefer : enc -> enc

val size0 : enc -> nat

type item =
| IUInt of n
| INInt of n
| IBytes of bytes
| IText of bytes
| IArray of item list
| IMap of item list
| ITag of n * item
| ISimple of n
| IF16 of n
| IF32 of n
| IF64 of n

val val_of : enc -> item

val phead : n -> n -> bytes

val enc_pref : item -> bytes

type parser0 = bytes -> (enc * bytes) option

val read_arg : n -> bytes -> ((width * n) * bytes) option

val parse_n :
  parser0 -> n -> nat -> bytes -> enc list -> (enc list * bytes) option

val starts : n -> bytes -> bool

val parse_brk :
  parser0 -> nat -> bytes -> enc list -> (enc list * bytes) option

val parse_chunks :
  n -> nat -> bytes -> chunk_t list -> (chunk_t list * bytes) option

val dispatch : parser0 -> bytes -> (enc * bytes) option

val parse : nat -> bytes -> (enc * bytes) option

val one_item : bytes -> enc option

val items : nat -> bytes -> enc list option
