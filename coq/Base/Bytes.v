(* Base/Bytes.v — bytes as N < 256, big-endian conversions, bounded slicing.
   Model conventions: DESIGN.md section 3.2. No proofs here (Proofs/BytesFacts.v). *)
From Coq Require Export List NArith ZArith Bool.
Export ListNotations.
Global Open Scope N_scope.

Global Arguments N.add : simpl never.
Global Arguments N.sub : simpl never.
Global Arguments N.mul : simpl never.
Global Arguments N.div : simpl never.
Global Arguments N.modulo : simpl never.
Global Arguments N.pow : simpl never.
Global Arguments N.eqb : simpl never.
Global Arguments N.ltb : simpl never.
Global Arguments N.leb : simpl never.
Global Arguments N.of_nat : simpl never.

Definition byte := N.
Definition bytes := list N.

Definition byte_ok (b : N) : bool := b <? 256.
Definition bytes_ok (bs : bytes) : bool := forallb byte_ok bs.

Definition len {A} (l : list A) : N := N.of_nat (length l).

(* k big-endian bytes of n mod 2^(8k) — Rust's uN::to_be_bytes *)
Fixpoint be (k : nat) (n : N) : bytes :=
  match k with
  | O => []
  | S k' => (n / 2 ^ (8 * N.of_nat k')) mod 256 :: be k' n
  end.

(* uN::from_be_bytes *)
Definition of_be (bs : bytes) : N := fold_left (fun a b => a * 256 + b) bs 0.

(* split off the first n elements; None iff fewer than n are present.
   Structural on the list, so an untrusted 64-bit n costs at most |l| steps. *)
Fixpoint take {A} (l : list A) (n : N) : option (list A * list A) :=
  if n =? 0 then Some ([], l)
  else match l with
       | [] => None
       | b :: r => match take r (N.pred n) with
                   | Some (a, rest) => Some (b :: a, rest)
                   | None => None
                   end
       end.

(* drop the first n elements (all of them if fewer are present) *)
Fixpoint dropN {A} (l : list A) (n : N) : list A :=
  if n =? 0 then l else match l with [] => [] | _ :: r => dropN r (N.pred n) end.

Definition u8_max  : N := 255.
Definition u16_max : N := 65535.
Definition u32_max : N := 4294967295.
Definition u64_max : N := 18446744073709551615.
Definition two64   : N := 18446744073709551616.
