(* Base/Text.v — text-formatting primitives shared by the model and the specification:
   what core::fmt produces for integers ({}), for bytes ({:02x}), and the output pieces.
   Definitions only (Proofs/TextFacts.v). *)
From MC Require Export Monad.
Local Open Scope N_scope.

(* PLit: literal bytes (UTF-8 text).  PFloat w bits: the text `{:e}` produces for the w-bit IEEE float
   with these bits — Rust's float formatting is an external function, its text is not modelled.
   PErr e: the Display text of a decode::Error of class e (message texts are not modelled). *)
Inductive piece := PLit (b : bytes) | PFloat (w : N) (bits : N) | PErr (e : err).

(* decimal digits of n (core::fmt::Display for unsigned integers) *)
Fixpoint dec_fuel (fuel : nat) (n : N) (acc : bytes) : bytes :=
  match fuel with
  | O => acc
  | S f => let acc' := (48 + n mod 10) :: acc in
           if n / 10 =? 0 then acc' else dec_fuel f (n / 10) acc'
  end.
Definition dec_n (n : N) : bytes := dec_fuel (S (N.to_nat (N.size n))) n [].
Definition dec_z (z : Z) : bytes :=
  if (z <? 0)%Z then 45 :: dec_n (Z.to_N (- z)) else dec_n (Z.to_N z).

(* {:02x} *)
Definition hexdigit (d : N) : N := if d <? 10 then 48 + d else 87 + d.
Definition hex2 (b : N) : bytes := [hexdigit (b / 16); hexdigit (b mod 16)].
