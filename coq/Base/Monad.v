(* Base/Monad.v — outcome type and the decoder state monad.
   minicbor/src/decode/error.rs (ErrorImpl), minicbor/src/data.rs (Type). *)
From MC Require Export Bytes.

(* data::Type *)
Inductive ctype :=
| TBool | TNull | TUndefined | TU8 | TU16 | TU32 | TU64 | TI8 | TI16 | TI32 | TI64 | TInt
| TF16 | TF32 | TF64 | TSimple | TBytes | TBytesIndef | TString | TStringIndef
| TArray | TArrayIndef | TMap | TMapIndef | TTag | TBreak | TUnknown (n : N).

(* decode::error::ErrorImpl, by class; payloads kept where a caller can observe them *)
Inductive err :=
| EndOfInput | TypeMismatch (t : ctype) | Overflow (n : N) | InvalidChar (n : N) | Utf8
| TagMismatch (t : N) | UnknownVariant (n : N) | MissingValue (n : N) | Message | Custom.

Inductive result (A : Type) :=
| Ok (a : A) | Err (e : err) | Panic | OutOfFuel.
Arguments Ok {A} a. Arguments Err {A} e. Arguments Panic {A}. Arguments OutOfFuel {A}.

(* Decoder { buf, pos }: the position and the not-yet-consumed suffix buf[pos..]
   (empty when pos >= buf.len()). *)
Record dst := mkdst { dpos : N; drest : bytes; dlen : N }.   (* dlen = buf.len() *)

Definition M (A : Type) := dst -> result A * dst.

Definition ret {A} (a : A) : M A := fun s => (Ok a, s).
Definition fail {A} (e : err) : M A := fun s => (Err e, s).
Definition bind {A B} (m : M A) (f : A -> M B) : M B :=
  fun s => match m s with
           | (Ok a, s') => f a s'
           | (Err e, s') => (Err e, s')
           | (Panic, s') => (Panic, s')
           | (OutOfFuel, s') => (OutOfFuel, s')
           end.
Definition fmap {A B} (f : A -> B) (m : M A) : M B := bind m (fun a => ret (f a)).

Declare Scope m_scope.
Notation "x <- m ;; k" := (bind m (fun x => k)) (at level 61, m at next level, right associativity) : m_scope.
Notation "m ;;; k" := (bind m (fun _ => k)) (at level 61, right associativity) : m_scope.
Delimit Scope m_scope with m.
Global Open Scope m_scope.

Definition start (bs : bytes) : dst := mkdst 0 bs (len bs).
Definition run {A} (m : M A) (bs : bytes) : result A * dst := m (start bs).

(* Decoder::set_position on input inp (usize: p < 2^64) *)
Definition at_pos (inp : bytes) (p : N) : dst := mkdst p (dropN inp p) (len inp).
