//! Correspondence harness for the build of minicbor WITHOUT `alloc`/`std` (see Cargo.toml).
//! Same protocol as harness/src/main.rs: one result line per case line, same order, every case under
//! catch_unwind.  Supports `D skip <hex> [pos] [cfg]` (C06); everything else answers `?unknown-op`.
mod util;
#[path = "../../harness/src/ops_skip.rs"]
mod ops_skip;

use std::io::{BufRead, BufWriter, Write};

fn handle(toks: &[&str]) -> String {
    match toks {
        ["D", "skip", _hex, ..] => ops_skip::d_skip(&toks[1 ..], false),
        _ => "?unknown-op".into()
    }
}

fn main() {
    std::panic::set_hook(Box::new(|_| {}));
    let args: Vec<String> = std::env::args().collect();
    let input = std::fs::File::open(&args[1]).expect("case file");
    let out: Box<dyn Write> = if args.len() > 2 { Box::new(std::fs::File::create(&args[2]).unwrap()) } else { Box::new(std::io::stdout()) };
    let mut out = BufWriter::new(out);
    for line in std::io::BufReader::new(input).lines() {
        let line = line.unwrap();
        let toks: Vec<&str> = line.split(' ').filter(|t| !t.is_empty()).collect();
        let res = if toks.is_empty() { String::new() } else {
            let t2: Vec<String> = toks.iter().map(|s| s.to_string()).collect();
            match std::panic::catch_unwind(move || { let r: Vec<&str> = t2.iter().map(|s| s.as_str()).collect(); handle(&r) }) {
                Ok(s) => s,
                Err(_) => "panic".into()
            }
        };
        writeln!(out, "{}", res).unwrap();
    }
    out.flush().unwrap();
}
