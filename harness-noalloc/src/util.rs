//! Glue shared with the main harness (copied from harness/src/util.rs; keep the text identical):
//! hex decoding and error classification.  `is_custom` does not exist without feature `alloc`.
use minicbor::decode;

pub fn unhex(s: &str) -> Vec<u8> {
    if s == "-" { return Vec::new() }
    (0 .. s.len() / 2).map(|i| u8::from_str_radix(&s[2 * i .. 2 * i + 2], 16).unwrap()).collect()
}

fn cut<'a>(s: &'a str, prefix: &str) -> &'a str {
    let s = s.strip_prefix(prefix).unwrap_or(s);
    let end = [s.find(" at position "), s.find(": "), s.find(" ("), s.find(" in map")]
        .iter().flatten().copied().min().unwrap_or(s.len());
    &s[.. end]
}

/// Error class as text (never the message text).
pub fn classify(e: &decode::Error) -> String {
    let d = e.to_string();
    if e.is_end_of_input() { return "eoi".into() }
    if e.is_type_mismatch() { return format!("type:{}", cut(&d, "unexpected type ").replace(' ', "_")) }
    if e.is_tag_mismatch() { return format!("tag:{}", cut(&d, "unexpected tag ")) }
    if e.is_unknown_variant() { return format!("variant:{}", cut(&d, "unknown enum variant ")) }
    if e.is_missing_value() { return format!("missing:{}", cut(&d, "missing value at index ")) }
    if e.is_message() { return "message".into() }
    if d.starts_with("invalid char ") {
        let h = cut(&d, "invalid char ");
        let n = u32::from_str_radix(h.trim_start_matches("0x"), 16).unwrap_or(0);
        return format!("invalidchar:{}", n)
    }
    if d.starts_with("invalid utf-8") { return "utf8".into() }
    if let Some(i) = d.find(" overflows target type") { return format!("overflow:{}", &d[.. i]) }
    format!("other:{}", d.replace(' ', "_"))
}
